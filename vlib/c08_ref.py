"""
Executed in a *fresh interpreter* (spawned, not forked) by props/c08.py:
    python c08_ref.py <repo> <alg> <N> <scramble>
Scrambles numpy's global generator, then for every getter constructs a fresh grid object, calls that getter first and
prints the sha256 of the value (json on the last line).
"""
import contextlib, io, json, os, sys

repo, alg, N, scramble = sys.argv[1], sys.argv[2], int(sys.argv[3]), int(sys.argv[4])
sys.path.insert(0, repo)
sys.path.insert(1, os.path.dirname(os.path.dirname(os.path.abspath(__file__))))
import warnings
warnings.filterwarnings("ignore")
import numpy as np
from vlib.hashing import value_hash, GETTERS, call_getter, make_grid

np.random.seed(scramble)
np.random.random(scramble % 11)
out = {}
try:
    with contextlib.redirect_stdout(io.StringIO()):
        for name in GETTERS["fg" if alg.startswith("FG|") else (3 if alg in ("ico", "cube3D", "randomS") else 4)]:
            np.random.random(3)
            g = make_grid(alg, N)
            out[name] = value_hash(call_getter(g, name))
except Exception as e:  # raised by the code under test: reported as a violation by the caller, not a harness error
    out = {"_exception": f"{type(e).__name__}: {e}"}
print(json.dumps(out))
