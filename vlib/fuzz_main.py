"""
Coverage-guided campaign (atheris / libFuzzer) for the text-shaped properties, run in its own process:
    python vlib/fuzz_main.py <prop> <runs> <seed> <outdir>
The property module provides fuzz_decode(fdp) -> case or None and fuzz_judge(case) -> list of messages (the semantic oracle
lives inside the target). Counters go to <outdir>/stats.json every 500 executions (atexit does not run under libFuzzer);
a violating case is written to <outdir>/violation.json and the process is stopped.
"""
import contextlib, io, json, os, sys

prop, runs, seed, outdir = sys.argv[1], int(sys.argv[2]), int(sys.argv[3]), sys.argv[4]
HERE = os.path.dirname(os.path.dirname(os.path.abspath(__file__)))
sys.path.insert(0, os.environ.get("VERIF_REPO", "/repo"))
sys.path.insert(1, HERE)
sys.path.insert(2, os.path.join(HERE, ".deps"))
import warnings
warnings.filterwarnings("ignore")
import atheris

INSTRUMENT = {"c16": ["molgri.space.translations"], "c17": ["molgri.naming"], "c20": ["molgri.io"]}[prop]
with atheris.instrument_imports(include=INSTRUMENT):
    import importlib
    for m in INSTRUMENT:
        importlib.import_module(m)
mod = importlib.import_module(f"props.{prop}")
stats = {"executions": 0, "decoded": 0, "nontrivial": 0, "samples": []}
seen = set()
os.makedirs(outdir, exist_ok=True)


def flush():
    with open(os.path.join(outdir, "stats.json"), "w") as f:
        json.dump(stats, f)


def one_input(data):
    stats["executions"] += 1
    fdp = atheris.FuzzedDataProvider(data)
    case = mod.fuzz_decode(fdp)
    if case is not None:
        stats["decoded"] += 1
        with contextlib.redirect_stdout(io.StringIO()):
            msgs = mod.fuzz_judge(case)
        key = json.dumps(case, sort_keys=True, default=str)
        if key not in seen and len(seen) < 200000:
            seen.add(key)
            if mod.fuzz_nontrivial(case):
                stats["nontrivial"] += 1
            if len(stats["samples"]) < 5 or (stats["executions"] % 5003 == 0 and len(stats["samples"]) < 10):
                stats["samples"].append(case)
        if msgs:
            with open(os.path.join(outdir, "violation.json"), "w") as f:
                json.dump({"case": case, "message": "; ".join(map(str, msgs))}, f, default=str)
            flush()
            os._exit(77)
    if stats["executions"] % 500 == 0:
        flush()


corpus = os.path.join(outdir, "corpus")
os.makedirs(corpus, exist_ok=True)
atheris.Setup([sys.argv[0], corpus, f"-runs={runs}", f"-seed={seed}", "-max_len=256", "-print_final_stats=0", "-verbosity=0"], one_input)
try:
    atheris.Fuzz()
finally:
    flush()
