"""Construction helpers for the code under test (always quiet, cached per process)."""
import functools
import traceback

import numpy as np

from vlib.core import quiet, REPO


@functools.lru_cache(maxsize=64)
def sphere_grid(alg, N):
    """A constructed SphereGrid object from the repository's factory (3D for ico/cube3D/randomS/zero3D, else 4D)."""
    from molgri.space.rotobj import SphereGrid3DFactory, SphereGrid4DFactory
    with quiet():
        if alg in ("ico", "cube3D", "randomS", "zero3D"):
            return SphereGrid3DFactory.create(alg_name=alg, N=N)
        return SphereGrid4DFactory.create(alg_name=alg, N=N)


def fresh_sphere_grid(alg, N):
    from molgri.space.rotobj import SphereGrid3DFactory, SphereGrid4DFactory
    with quiet():
        if alg in ("ico", "cube3D", "randomS", "zero3D"):
            return SphereGrid3DFactory.create(alg_name=alg, N=N)
        return SphereGrid4DFactory.create(alg_name=alg, N=N)


def full_grid(b, o, t, factor=2, cartesian=False):
    from molgri.space.fullgrid import FullGrid
    with quiet():
        return FullGrid(b, o, t, factor=factor, position_grid_cartesian=cartesian)


def position_grid(o, t, cartesian=False):
    from molgri.space.fullgrid import PositionGrid
    with quiet():
        return PositionGrid(o, t, position_grid_cartesian=cartesian)


def innermost_repo_frame(exc):
    """(file:function) of the innermost traceback frame that lies inside the repository's package."""
    best = "?"
    for fs in traceback.extract_tb(exc.__traceback__):
        if "/molgri/" in fs.filename:
            best = f"{fs.filename.split('/molgri/', 1)[1]}:{fs.name}"
    return best


def dense(m):
    return np.asarray(m.toarray() if hasattr(m, "toarray") else m)


def snapshot(obj):
    """An independent copy of a getter result (sparse matrix, array or list) for judging."""
    if hasattr(obj, "nnz") and hasattr(obj, "copy"):
        return obj.copy()
    if isinstance(obj, np.ndarray):
        return obj.copy()
    if isinstance(obj, (list, tuple)):
        return np.array(obj)
    return obj


def scribble(obj):
    """In-place edits a caller may make to an object it was handed (unit conversion, masking). A getter result belongs
    to the caller: editing it must not change what the library reports afterwards."""
    try:
        target = obj.data if (hasattr(obj, "nnz") and hasattr(obj, "data")) else obj
        if isinstance(target, np.ndarray) and target.flags.writeable and target.size:
            if target.dtype == bool:
                target[...] = False
            elif np.issubdtype(target.dtype, np.floating):
                target *= 57.29577951308232
            elif np.issubdtype(target.dtype, np.integer):
                target *= 3
        elif isinstance(target, list) and target:
            target[0] = target[-1]
            target.reverse()
    except Exception:
        pass
