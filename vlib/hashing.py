"""Bit-exact fingerprints of grid values, shared by the in-process machine and the fresh-process reference."""
import hashlib

import numpy as np

GETTERS = {
    3: ["array", "array_upper_view", "areas_exact", "areas_approx", "adjacency", "borders", "distances"],
    4: ["array_upper", "array_full", "volumes", "adjacency", "borders", "distances"],
    "fg": ["full_array", "total_volumes", "full_adjacency", "full_borders", "full_distances", "pos_adjacency", "pos_borders",
           "pos_distances", "pos_volumes", "full_adjacency_only_orientation", "full_adjacency_only_position",
           "full_distances_only_orientation", "full_distances_only_position"],
}


def make_grid(alg, N):
    if alg.startswith("FG|"):   # a full SE(3) grid: "FG|<b name>|<o name>|<t name>|<0/1 cartesian>"
        from molgri.space.fullgrid import FullGrid
        _, b, o, t, cart = alg.split("|")
        return FullGrid(b, o, t, position_grid_cartesian=bool(int(cart)))
    from molgri.space.rotobj import SphereGrid3DFactory, SphereGrid4DFactory
    if alg in ("ico", "cube3D", "randomS"):
        return SphereGrid3DFactory.create(alg_name=alg, N=N)
    return SphereGrid4DFactory.create(alg_name=alg, N=N)


def call_getter(g, name):
    import numpy as np
    fg = {"full_array": lambda: g.get_full_grid_as_array(), "total_volumes": lambda: np.asarray(g.get_total_volumes()),
          "full_adjacency": lambda: g.get_full_adjacency(), "full_borders": lambda: g.get_full_borders(),
          "full_distances": lambda: g.get_full_distances(),
          "full_adjacency_only_orientation": lambda: g.get_full_adjacency(only_orientation=True),
          "full_adjacency_only_position": lambda: g.get_full_adjacency(only_position=True),
          "full_distances_only_orientation": lambda: g.get_full_distances(only_orientation=True),
          "full_distances_only_position": lambda: g.get_full_distances(only_position=True),
          "pos_adjacency": lambda: g.get_position_grid().get_adjacency_of_position_grid(),
          "pos_borders": lambda: g.get_position_grid().get_borders_of_position_grid(),
          "pos_distances": lambda: g.get_position_grid().get_distances_of_position_grid(),
          "pos_volumes": lambda: np.asarray(g.get_position_grid().get_all_position_volumes())}
    if name in fg:
        return fg[name]()
    if name == "array":
        return g.get_grid_as_array()
    if name == "array_upper_view":
        return g.get_grid_as_array(only_upper=True)
    if name == "array_upper":
        return g.get_grid_as_array(only_upper=True)
    if name == "array_full":
        return g.get_grid_as_array(only_upper=False)
    if name == "areas_exact":
        return g.get_spherical_voronoi().get_voronoi_volumes()
    if name == "areas_approx":
        return g.get_spherical_voronoi().get_voronoi_volumes(approx=True)
    if name == "volumes":
        return g.get_spherical_voronoi().get_voronoi_volumes()
    if name == "adjacency":
        return g.get_voronoi_adjacency()
    if name == "borders":
        return g.get_cell_borders()
    if name == "distances":
        return g.get_center_distances()
    raise ValueError(name)


def value_hash(v):
    h = hashlib.sha256()
    if hasattr(v, "tocoo"):
        c = v.tocoo()
        h.update(repr((c.shape, str(c.data.dtype))).encode())
        for part in (c.row, c.col, c.data):
            h.update(np.ascontiguousarray(part).tobytes())
    else:
        a = np.ascontiguousarray(np.asarray(v))
        h.update(repr((a.shape, str(a.dtype))).encode())
        h.update(a.tobytes())
    return h.hexdigest()[:24]
