"""Writing generated rigid molecules to .xyz / .gro files and reading them through the package's reader."""
import os

import numpy as np

from vlib.core import quiet

ELEMENTS = ["H", "C", "N", "O", "S"]


def write_xyz(path, elements, coords):
    with open(path, "w") as f:
        f.write(f"{len(elements)}\ngenerated molecule\n")
        for el, (x, y, z) in zip(elements, coords):
            f.write(f"{el} {x:.6f} {y:.6f} {z:.6f}\n")


def write_gro(path, elements, coords):
    """coords in Angstrom; gro stores nm with 3 decimals."""
    with open(path, "w") as f:
        f.write("generated molecule\n")
        f.write(f"{len(elements):5d}\n")
        for i, (el, c) in enumerate(zip(elements, coords)):
            x, y, z = (v / 10 for v in c)
            f.write(f"{1:5d}{'MOL':<5s}{(el + str(i + 1))[:5]:>5s}{i + 1:5d}{x:8.3f}{y:8.3f}{z:8.3f}\n")
        f.write("  10.00000  10.00000  10.00000\n")


def write_molecule(directory, name, elements, coords, fmt):
    path = os.path.join(directory, f"{name}.{fmt}")
    (write_xyz if fmt == "xyz" else write_gro)(path, elements, np.asarray(coords, dtype=float))
    return path


def read_molecule(path):
    from molgri.io import OneMoleculeReader
    with quiet():
        return OneMoleculeReader(path).get_molecule()


def quat_to_matrix(q):
    """Rotation matrix of a scalar-last unit quaternion (x, y, z, w) - own formula, not scipy's."""
    x, y, z, w = (float(v) for v in q)
    n = x * x + y * y + z * z + w * w
    x, y, z, w = (v / np.sqrt(n) for v in (x, y, z, w))
    return np.array([[1 - 2 * (y * y + z * z), 2 * (x * y - z * w), 2 * (x * z + y * w)],
                     [2 * (x * y + z * w), 1 - 2 * (x * x + z * z), 2 * (y * z - x * w)],
                     [2 * (x * z - y * w), 2 * (y * z + x * w), 1 - 2 * (x * x + y * y)]])


def shape_class(coords):
    c = np.asarray(coords, dtype=float)
    if len(c) == 1:
        return "single_atom"
    s = np.linalg.svd(c - c.mean(axis=0), compute_uv=False)
    s = np.concatenate([s, np.zeros(3)])[:3]
    if s[0] < 1e-9:
        return "single_atom"
    if s[1] < 1e-6 * s[0] + 1e-9:
        return "collinear"
    if s[2] < 1e-6 * s[0] + 1e-9:
        return "planar"
    return "generic"
