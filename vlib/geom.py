"""
First-principles geometric oracles (numpy only for the deciding computations):

* s2_voronoi(points): spherical Voronoi tessellation of S^2 by clipping every bisector great circle with all other
  points (closed form half circles) -> border arc lengths, arc end points, cell areas (atan2 triangle formula).
* clip_polygon_halfplanes: Sutherland-Hodgman clipping of a convex polygon by half planes (2-D).
* s3 / Euclidean face oracles are built on it (see s3_faces, euclid_cells).
"""
import numpy as np

PI = np.pi


def _wrap(x):
    """wrap angles to (-pi, pi]"""
    return -((-x + PI) % (2 * PI) - PI)


def tri_solid_angle(a, b, c):
    """Area of the spherical triangle with unit vertices a, b, c (Van Oosterom - Strackee), arrays (...,3)."""
    num = np.abs(np.einsum("...i,...i->...", a, np.cross(b, c)))
    den = 1 + np.einsum("...i,...i->...", a, b) + np.einsum("...i,...i->...", b, c) + np.einsum("...i,...i->...", c, a)
    return 2 * np.arctan2(num, den)


def s2_voronoi(P):
    """
    P: (N,3) distinct unit vectors, N >= 3. Returns dict with
      length (N,N): length of the arc shared by the nearest-neighbour regions of i and j (0 if none),
      ends (N,N,2,3): end points of that arc, area (N,): region areas from the arcs.
    Every pair is decided independently from the definition: the set of points of the bisector great circle of (i,j)
    that are at least as close to i as to every other point k.
    """
    P = np.asarray(P, dtype=float)
    N = len(P)
    length = np.zeros((N, N))
    ends = np.zeros((N, N, 2, 3))
    for i in range(N):
        others = np.array([j for j in range(N) if j != i])
        pj = P[others]                                     # (M,3)
        nrm = P[i] - pj
        nrm /= np.linalg.norm(nrm, axis=1)[:, None]
        # orthonormal basis (u, v) of each bisector plane; u = normalised projection of p_i + p_j (never zero for j != -i)
        mid = P[i] + pj
        mid_n = np.linalg.norm(mid, axis=1)
        u = np.where(mid_n[:, None] > 1e-9, mid / np.maximum(mid_n, 1e-300)[:, None], 0.0)
        anti = mid_n <= 1e-9
        if anti.any():  # antipodal pair: any direction orthogonal to nrm
            for r in np.nonzero(anti)[0]:
                e = np.eye(3)[np.argmin(np.abs(nrm[r]))]
                w = e - nrm[r] * (e @ nrm[r])
                u[r] = w / np.linalg.norm(w)
        v = np.cross(nrm, u)
        D = P[i][None, :] - P                               # (N,3) p_i - p_k
        a = u @ D.T                                          # (M,N)
        b = v @ D.T
        phi = np.arctan2(b, a)                              # direction of the allowed half circle's centre
        valid = np.ones((len(others), N), dtype=bool)
        valid[:, i] = False
        valid[np.arange(len(others)), others] = False
        # degenerate constraint (a,b) ~ 0 cannot occur for distinct points other than i, j
        mag = np.hypot(a, b)
        valid &= mag > 1e-14
        # reference: the first valid constraint of each row
        first = np.argmax(valid, axis=1)
        phi0 = phi[np.arange(len(others)), first]
        delta = _wrap(phi - phi0[:, None])
        lo_c = np.where(valid & (delta >= 0), delta - PI / 2, -PI / 2)
        hi_c = np.where(valid & (delta < 0), delta + PI / 2, PI / 2)
        lo = lo_c.max(axis=1)
        hi = hi_c.min(axis=1)
        L = np.maximum(hi - lo, 0.0)
        length[i, others] = L
        tl, th = lo + phi0, hi + phi0
        ends[i, others, 0] = u * np.cos(tl)[:, None] + v * np.sin(tl)[:, None]
        ends[i, others, 1] = u * np.cos(th)[:, None] + v * np.sin(th)[:, None]
    area = np.zeros(N)
    for i in range(N):
        js = np.nonzero(length[i] > 0)[0]
        if len(js):
            area[i] = tri_solid_angle(P[i][None, :], ends[i, js, 0], ends[i, js, 1]).sum()
    return {"length": length, "ends": ends, "area": area}


def s2_self_test():
    problems = []
    # regular tetrahedron: 4 cells of area pi, 6 arcs of length arccos(-1/3)... each edge arc = pi - arccos(-1/3)?
    T = np.array([[1, 1, 1], [1, -1, -1], [-1, 1, -1], [-1, -1, 1]], dtype=float) / np.sqrt(3)
    r = s2_voronoi(T)
    # cell = spherical triangle with vertices at the opposite face centres (-T); side = angle between two such = arccos(-1/3)
    side = np.arccos(-1 / 3)
    off = ~np.eye(4, dtype=bool)
    if not np.allclose(r["length"][off], side, atol=1e-12):
        problems.append(f"tetrahedron arcs {r['length'][0]} != {side}")
    if not np.allclose(r["area"], PI, atol=1e-12):
        problems.append(f"tetrahedron areas {r['area']}")
    # octahedron vertices: 6 cells = cube faces projected, area 4pi/6, 4 neighbours each with arc arccos(1/3)
    O = np.vstack([np.eye(3), -np.eye(3)])
    r = s2_voronoi(O)
    if not np.allclose(r["area"], 4 * PI / 6, atol=1e-12):
        problems.append(f"octahedron areas {r['area']}")
    L = r["length"]
    if not (np.allclose(np.sort(L[0])[-4:], np.arccos(1 / 3), atol=1e-12) and np.allclose(np.sort(L[0])[:2], 0, atol=1e-12)):
        problems.append(f"octahedron arcs {L[0]}")
    # cube vertices: 8 cells, area 4pi/8, 3 neighbours with arc pi/2... (cells are octahedron-face triangles, side pi/2)
    C = np.array([[x, y, z] for x in (-1, 1) for y in (-1, 1) for z in (-1, 1)], dtype=float) / np.sqrt(3)
    r = s2_voronoi(C)
    if not np.allclose(r["area"], 4 * PI / 8, atol=1e-12):
        problems.append(f"cube areas {r['area']}")
    if not np.allclose(np.sort(r["length"][0])[-3:], PI / 2, atol=1e-12) or np.sort(r["length"][0])[4] > 1e-12:
        problems.append(f"cube arcs {r['length'][0]}")
    return problems


# ----------------------------------------------------------------------------------------------------------------------
# 2-D convex clipping
# ----------------------------------------------------------------------------------------------------------------------

def clip_polygon_halfplanes(poly, normals, offsets):
    """
    Sutherland-Hodgman: clip the convex polygon poly ((m,2) vertices in order) with the half planes
    {x : normals[k].x + offsets[k] >= 0}. Returns the clipped polygon (possibly empty (0,2) array).
    """
    poly = np.asarray(poly, dtype=float)
    for n, c in zip(normals, offsets):
        if len(poly) == 0:
            break
        d = poly @ n + c
        if np.all(d >= 0):
            continue
        if np.all(d < 0):
            return np.zeros((0, 2))
        out = []
        m = len(poly)
        for k in range(m):
            p, qn = poly[k], poly[(k + 1) % m]
            dp, dq = d[k], d[(k + 1) % m]
            if dp >= 0:
                out.append(p)
            if (dp >= 0) != (dq >= 0):
                t = dp / (dp - dq)
                out.append(p + t * (qn - p))
        poly = np.array(out) if out else np.zeros((0, 2))
    return poly


def polygon_area_2d(poly):
    if len(poly) < 3:
        return 0.0
    x, y = poly[:, 0], poly[:, 1]
    return 0.5 * abs(np.dot(x, np.roll(y, -1)) - np.dot(y, np.roll(x, -1)))


# ----------------------------------------------------------------------------------------------------------------------
# Euclidean Voronoi cells in R^3 (independent of scipy.spatial.Voronoi)
# ----------------------------------------------------------------------------------------------------------------------

def _plane_basis(n):
    n = n / np.linalg.norm(n)
    e = np.eye(3)[np.argmin(np.abs(n))]
    e1 = e - n * (e @ n)
    e1 /= np.linalg.norm(e1)
    e2 = np.cross(n, e1)
    return e1, e2


def euclid_face(P, i, j, big=None):
    """
    Polygon (in 3-D coordinates) and area of the planar face shared by the Euclidean Voronoi cells of P[i] and P[j]:
    the part of the bisector plane that is at least as close to i (and j) as to every other point. Computed by clipping
    a huge square in the bisector plane with all other bisector half planes. Returns (area, polygon3d, touches_big).
    """
    P = np.asarray(P, dtype=float)
    if big is None:
        big = 1e3 * max(1.0, np.abs(P).max())
    m = (P[i] + P[j]) / 2
    e1, e2 = _plane_basis(P[i] - P[j])
    others = np.array([k for k in range(len(P)) if k != i and k != j])
    D = P[i][None, :] - P[others]                      # p_i - p_k
    mid = (P[i][None, :] + P[others]) / 2
    # constraint (m + s e1 + t e2 - mid_k) . D_k >= 0
    normals = np.stack([D @ e1, D @ e2], axis=1)
    offsets = np.einsum("ij,ij->i", m[None, :] - mid, D)
    # nearest constraints first: the polygon shrinks quickly and most later constraints are 'all inside'
    scale = np.linalg.norm(normals, axis=1)
    ok = scale > 1e-300
    order = np.argsort(np.where(ok, offsets / np.where(ok, scale, 1), np.inf))
    poly = np.array([[-big, -big], [big, -big], [big, big], [-big, big]])
    poly = clip_polygon_halfplanes(poly, normals[order], offsets[order])
    if len(poly) < 3:
        return 0.0, np.zeros((0, 3)), False
    touches = bool(np.abs(poly).max() >= big * (1 - 1e-9))
    return polygon_area_2d(poly), m[None, :] + poly[:, :1] * e1 + poly[:, 1:] * e2, touches


def euclid_cell_volume(P, i, big=None):
    """Volume of the Euclidean Voronoi cell of P[i] via the intersection of its bisector half spaces (qhull
    HalfspaceIntersection + ConvexHull: a different route than the library's Voronoi-vertex lifting). Returns
    (volume, bounded)."""
    from scipy.spatial import HalfspaceIntersection, ConvexHull
    P = np.asarray(P, dtype=float)
    if big is None:
        big = 1e3 * max(1.0, np.abs(P).max())
    others = np.array([k for k in range(len(P)) if k != i])
    A = P[others] - P[i]
    b = -(np.einsum("ij,ij->i", P[others], P[others]) - P[i] @ P[i]) / 2
    box_A = np.vstack([np.eye(3), -np.eye(3)])
    box_b = -np.full(6, big)
    hs = np.hstack([np.vstack([A, box_A]), np.concatenate([b, box_b])[:, None]])
    hi = HalfspaceIntersection(hs, P[i].copy())
    verts = hi.intersections
    bounded = bool(np.abs(verts).max() < big * (1 - 1e-9))
    return float(ConvexHull(verts).volume), bounded


def euclid_self_test():
    problems = []
    # cubic lattice 3x3x3: the centre cell is the unit cube, its six faces unit squares
    pts = np.array([[x, y, z] for x in (-1, 0, 1) for y in (-1, 0, 1) for z in (-1, 0, 1)], dtype=float)
    c = 13
    vol, bounded = euclid_cell_volume(pts, c)
    if not bounded or abs(vol - 1) > 1e-12:
        problems.append(f"unit cube cell volume {vol} bounded={bounded}")
    j = int(np.nonzero((pts == [1, 0, 0]).all(axis=1))[0][0])
    area, poly, touch = euclid_face(pts, c, j)
    if abs(area - 1) > 1e-12 or touch:
        problems.append(f"unit square face area {area}")
    k = int(np.nonzero((pts == [1, 1, 0]).all(axis=1))[0][0])
    area, poly, touch = euclid_face(pts, c, k)
    if area > 1e-12:
        problems.append(f"edge contact reported as a face of area {area}")
    # bcc lattice cell: truncated octahedron of volume 4 (a=2): hexagon faces area 3*sqrt(3)/2*(a*sqrt(2)/4)^2...
    a = 2.0
    corner = np.array([[x, y, z] for x in range(-2, 3) for y in range(-2, 3) for z in range(-2, 3)], dtype=float) * a
    centre = corner + a / 2
    pts = np.vstack([corner, centre])
    c = int(np.nonzero((pts == [0, 0, 0]).all(axis=1))[0][0])
    vol, bounded = euclid_cell_volume(pts, c)
    if not bounded or abs(vol - a ** 3 / 2) > 1e-10:
        problems.append(f"bcc cell volume {vol}")
    j = int(np.nonzero((pts == [a / 2, a / 2, a / 2]).all(axis=1))[0][0])
    area, _, _ = euclid_face(pts, c, j)
    edge = a * np.sqrt(2) / 4
    if abs(area - 3 * np.sqrt(3) / 2 * edge ** 2) > 1e-10:
        problems.append(f"bcc hexagon area {area} vs {3 * np.sqrt(3) / 2 * edge ** 2}")
    j = int(np.nonzero((pts == [a, 0, 0]).all(axis=1))[0][0])
    area, _, _ = euclid_face(pts, c, j)
    if abs(area - edge ** 2) > 1e-10:
        problems.append(f"bcc square area {area} vs {edge ** 2}")
    return problems
