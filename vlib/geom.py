"""
First-principles geometric oracles (numpy only for the deciding computations):

* s2_voronoi(points): spherical Voronoi tessellation of S^2 by clipping every bisector great circle with all other
  points (closed form half circles) -> border arc lengths, arc end points, cell areas (atan2 triangle formula).
* clip_polygon_halfplanes: Sutherland-Hodgman clipping of a convex polygon by half planes (2-D).
* s3 / Euclidean face oracles are built on it (see s3_faces, euclid_cells).
"""
import numpy as np

PI = np.pi


def _wrap(x):
    """wrap angles to (-pi, pi]"""
    return -((-x + PI) % (2 * PI) - PI)


def tri_solid_angle(a, b, c):
    """Area of the spherical triangle with unit vertices a, b, c (Van Oosterom - Strackee), arrays (...,3)."""
    num = np.abs(np.einsum("...i,...i->...", a, np.cross(b, c)))
    den = 1 + np.einsum("...i,...i->...", a, b) + np.einsum("...i,...i->...", b, c) + np.einsum("...i,...i->...", c, a)
    return 2 * np.arctan2(num, den)


def s2_voronoi(P):
    """
    P: (N,3) distinct unit vectors, N >= 3. Returns dict with
      length (N,N): length of the arc shared by the nearest-neighbour regions of i and j (0 if none),
      ends (N,N,2,3): end points of that arc, area (N,): region areas from the arcs.
    Every pair is decided independently from the definition: the set of points of the bisector great circle of (i,j)
    that are at least as close to i as to every other point k.
    """
    P = np.asarray(P, dtype=float)
    N = len(P)
    length = np.zeros((N, N))
    ends = np.zeros((N, N, 2, 3))
    for i in range(N):
        others = np.array([j for j in range(N) if j != i])
        pj = P[others]                                     # (M,3)
        nrm = P[i] - pj
        nrm /= np.linalg.norm(nrm, axis=1)[:, None]
        # orthonormal basis (u, v) of each bisector plane; u = normalised projection of p_i + p_j (never zero for j != -i)
        mid = P[i] + pj
        mid_n = np.linalg.norm(mid, axis=1)
        u = np.where(mid_n[:, None] > 1e-9, mid / np.maximum(mid_n, 1e-300)[:, None], 0.0)
        anti = mid_n <= 1e-9
        if anti.any():  # antipodal pair: any direction orthogonal to nrm
            for r in np.nonzero(anti)[0]:
                e = np.eye(3)[np.argmin(np.abs(nrm[r]))]
                w = e - nrm[r] * (e @ nrm[r])
                u[r] = w / np.linalg.norm(w)
        v = np.cross(nrm, u)
        D = P[i][None, :] - P                               # (N,3) p_i - p_k
        a = u @ D.T                                          # (M,N)
        b = v @ D.T
        phi = np.arctan2(b, a)                              # direction of the allowed half circle's centre
        valid = np.ones((len(others), N), dtype=bool)
        valid[:, i] = False
        valid[np.arange(len(others)), others] = False
        # degenerate constraint (a,b) ~ 0 cannot occur for distinct points other than i, j
        mag = np.hypot(a, b)
        valid &= mag > 1e-14
        # reference: the first valid constraint of each row
        first = np.argmax(valid, axis=1)
        phi0 = phi[np.arange(len(others)), first]
        delta = _wrap(phi - phi0[:, None])
        lo_c = np.where(valid & (delta >= 0), delta - PI / 2, -PI / 2)
        hi_c = np.where(valid & (delta < 0), delta + PI / 2, PI / 2)
        lo = lo_c.max(axis=1)
        hi = hi_c.min(axis=1)
        L = np.maximum(hi - lo, 0.0)
        length[i, others] = L
        tl, th = lo + phi0, hi + phi0
        ends[i, others, 0] = u * np.cos(tl)[:, None] + v * np.sin(tl)[:, None]
        ends[i, others, 1] = u * np.cos(th)[:, None] + v * np.sin(th)[:, None]
    area = np.zeros(N)
    for i in range(N):
        js = np.nonzero(length[i] > 0)[0]
        if len(js):
            area[i] = tri_solid_angle(P[i][None, :], ends[i, js, 0], ends[i, js, 1]).sum()
    return {"length": length, "ends": ends, "area": area}


def s2_self_test():
    problems = []
    # regular tetrahedron: 4 cells of area pi, 6 arcs of length arccos(-1/3)... each edge arc = pi - arccos(-1/3)?
    T = np.array([[1, 1, 1], [1, -1, -1], [-1, 1, -1], [-1, -1, 1]], dtype=float) / np.sqrt(3)
    r = s2_voronoi(T)
    # cell = spherical triangle with vertices at the opposite face centres (-T); side = angle between two such = arccos(-1/3)
    side = np.arccos(-1 / 3)
    off = ~np.eye(4, dtype=bool)
    if not np.allclose(r["length"][off], side, atol=1e-12):
        problems.append(f"tetrahedron arcs {r['length'][0]} != {side}")
    if not np.allclose(r["area"], PI, atol=1e-12):
        problems.append(f"tetrahedron areas {r['area']}")
    # octahedron vertices: 6 cells = cube faces projected, area 4pi/6, 4 neighbours each with arc arccos(1/3)
    O = np.vstack([np.eye(3), -np.eye(3)])
    r = s2_voronoi(O)
    if not np.allclose(r["area"], 4 * PI / 6, atol=1e-12):
        problems.append(f"octahedron areas {r['area']}")
    L = r["length"]
    if not (np.allclose(np.sort(L[0])[-4:], np.arccos(1 / 3), atol=1e-12) and np.allclose(np.sort(L[0])[:2], 0, atol=1e-12)):
        problems.append(f"octahedron arcs {L[0]}")
    # cube vertices: 8 cells, area 4pi/8, 3 neighbours with arc pi/2... (cells are octahedron-face triangles, side pi/2)
    C = np.array([[x, y, z] for x in (-1, 1) for y in (-1, 1) for z in (-1, 1)], dtype=float) / np.sqrt(3)
    r = s2_voronoi(C)
    if not np.allclose(r["area"], 4 * PI / 8, atol=1e-12):
        problems.append(f"cube areas {r['area']}")
    if not np.allclose(np.sort(r["length"][0])[-3:], PI / 2, atol=1e-12) or np.sort(r["length"][0])[4] > 1e-12:
        problems.append(f"cube arcs {r['length'][0]}")
    return problems


# ----------------------------------------------------------------------------------------------------------------------
# 2-D convex clipping
# ----------------------------------------------------------------------------------------------------------------------

def clip_polygon_halfplanes(poly, normals, offsets):
    """
    Sutherland-Hodgman: clip the convex polygon poly ((m,2) vertices in order) with the half planes
    {x : normals[k].x + offsets[k] >= 0}. Returns the clipped polygon (possibly empty (0,2) array).
    """
    poly = np.asarray(poly, dtype=float)
    for n, c in zip(normals, offsets):
        if len(poly) == 0:
            break
        d = poly @ n + c
        if np.all(d >= 0):
            continue
        if np.all(d < 0):
            return np.zeros((0, 2))
        out = []
        m = len(poly)
        for k in range(m):
            p, qn = poly[k], poly[(k + 1) % m]
            dp, dq = d[k], d[(k + 1) % m]
            if dp >= 0:
                out.append(p)
            if (dp >= 0) != (dq >= 0):
                t = dp / (dp - dq)
                out.append(p + t * (qn - p))
        poly = np.array(out) if out else np.zeros((0, 2))
    return poly


def polygon_area_2d(poly):
    if len(poly) < 3:
        return 0.0
    x, y = poly[:, 0], poly[:, 1]
    return 0.5 * abs(np.dot(x, np.roll(y, -1)) - np.dot(y, np.roll(x, -1)))


# ----------------------------------------------------------------------------------------------------------------------
# Euclidean Voronoi cells in R^3 (independent of scipy.spatial.Voronoi)
# ----------------------------------------------------------------------------------------------------------------------

def _plane_basis(n):
    n = n / np.linalg.norm(n)
    e = np.eye(3)[np.argmin(np.abs(n))]
    e1 = e - n * (e @ n)
    e1 /= np.linalg.norm(e1)
    e2 = np.cross(n, e1)
    return e1, e2


def euclid_face(P, i, j, big=None):
    """
    Polygon (in 3-D coordinates) and area of the planar face shared by the Euclidean Voronoi cells of P[i] and P[j]:
    the part of the bisector plane that is at least as close to i (and j) as to every other point. Computed by clipping
    a huge square in the bisector plane with all other bisector half planes. Returns (area, polygon3d, touches_big).
    """
    P = np.asarray(P, dtype=float)
    if big is None:
        big = 1e3 * max(1.0, np.abs(P).max())
    m = (P[i] + P[j]) / 2
    e1, e2 = _plane_basis(P[i] - P[j])
    others = np.array([k for k in range(len(P)) if k != i and k != j])
    D = P[i][None, :] - P[others]                      # p_i - p_k
    mid = (P[i][None, :] + P[others]) / 2
    # constraint (m + s e1 + t e2 - mid_k) . D_k >= 0
    normals = np.stack([D @ e1, D @ e2], axis=1)
    offsets = np.einsum("ij,ij->i", m[None, :] - mid, D)
    # nearest constraints first: the polygon shrinks quickly and most later constraints are 'all inside'
    scale = np.linalg.norm(normals, axis=1)
    ok = scale > 1e-300
    order = np.argsort(np.where(ok, offsets / np.where(ok, scale, 1), np.inf))
    poly = np.array([[-big, -big], [big, -big], [big, big], [-big, big]])
    poly = clip_polygon_halfplanes(poly, normals[order], offsets[order])
    if len(poly) < 3:
        return 0.0, np.zeros((0, 3)), False
    touches = bool(np.abs(poly).max() >= big * (1 - 1e-9))
    return polygon_area_2d(poly), m[None, :] + poly[:, :1] * e1 + poly[:, 1:] * e2, touches


def euclid_cell_volume(P, i, big=None):
    """Volume of the Euclidean Voronoi cell of P[i] via the intersection of its bisector half spaces (qhull
    HalfspaceIntersection + ConvexHull: a different route than the library's Voronoi-vertex lifting). Returns
    (volume, bounded)."""
    from scipy.spatial import HalfspaceIntersection, ConvexHull
    P = np.asarray(P, dtype=float)
    if big is None:
        big = 1e3 * max(1.0, np.abs(P).max())
    others = np.array([k for k in range(len(P)) if k != i])
    A = P[others] - P[i]
    b = -(np.einsum("ij,ij->i", P[others], P[others]) - P[i] @ P[i]) / 2
    box_A = np.vstack([np.eye(3), -np.eye(3)])
    box_b = -np.full(6, big)
    hs = np.hstack([np.vstack([A, box_A]), np.concatenate([b, box_b])[:, None]])
    hi = HalfspaceIntersection(hs, P[i].copy())
    verts = hi.intersections
    bounded = bool(np.abs(verts).max() < big * (1 - 1e-9))
    return float(ConvexHull(verts).volume), bounded


def euclid_self_test():
    problems = []
    # cubic lattice 3x3x3: the centre cell is the unit cube, its six faces unit squares
    pts = np.array([[x, y, z] for x in (-1, 0, 1) for y in (-1, 0, 1) for z in (-1, 0, 1)], dtype=float)
    c = 13
    vol, bounded = euclid_cell_volume(pts, c)
    if not bounded or abs(vol - 1) > 1e-12:
        problems.append(f"unit cube cell volume {vol} bounded={bounded}")
    j = int(np.nonzero((pts == [1, 0, 0]).all(axis=1))[0][0])
    area, poly, touch = euclid_face(pts, c, j)
    if abs(area - 1) > 1e-12 or touch:
        problems.append(f"unit square face area {area}")
    k = int(np.nonzero((pts == [1, 1, 0]).all(axis=1))[0][0])
    area, poly, touch = euclid_face(pts, c, k)
    if area > 1e-12:
        problems.append(f"edge contact reported as a face of area {area}")
    # bcc lattice cell: truncated octahedron of volume 4 (a=2): hexagon faces area 3*sqrt(3)/2*(a*sqrt(2)/4)^2...
    a = 2.0
    corner = np.array([[x, y, z] for x in range(-2, 3) for y in range(-2, 3) for z in range(-2, 3)], dtype=float) * a
    centre = corner + a / 2
    pts = np.vstack([corner, centre])
    c = int(np.nonzero((pts == [0, 0, 0]).all(axis=1))[0][0])
    vol, bounded = euclid_cell_volume(pts, c)
    if not bounded or abs(vol - a ** 3 / 2) > 1e-10:
        problems.append(f"bcc cell volume {vol}")
    j = int(np.nonzero((pts == [a / 2, a / 2, a / 2]).all(axis=1))[0][0])
    area, _, _ = euclid_face(pts, c, j)
    edge = a * np.sqrt(2) / 4
    if abs(area - 3 * np.sqrt(3) / 2 * edge ** 2) > 1e-10:
        problems.append(f"bcc hexagon area {area} vs {3 * np.sqrt(3) / 2 * edge ** 2}")
    j = int(np.nonzero((pts == [a, 0, 0]).all(axis=1))[0][0])
    area, _, _ = euclid_face(pts, c, j)
    if abs(area - edge ** 2) > 1e-10:
        problems.append(f"bcc square area {area} vs {edge ** 2}")
    return problems


# ----------------------------------------------------------------------------------------------------------------------
# Voronoi faces on S^3 (double cover of the rotations)
# ----------------------------------------------------------------------------------------------------------------------

def _orth_complement(v):
    """Orthonormal basis (4x3) of the 3-space orthogonal to v in R^4."""
    v = v / np.linalg.norm(v)
    M = np.eye(4) - np.outer(v, v)
    u, s, vt = np.linalg.svd(M)
    return u[:, :3]


def s3_face(Q, i, j, big=1e3):
    """
    Two-dimensional face shared by the nearest-neighbour regions of Q[i] and Q[j] on the unit 3-sphere (Q: all points,
    here the 2N double cover). Returns (margin, area, n_vertices, status):
      margin: largest t such that some unit direction y of the bisector hyperplane has (q_i-q_k).y/|q_i-q_k| >= t for all k
              (LP, HiGHS); the face exists iff margin > 0;
      area:   spherical area of the face (gnomonic chart at the LP centre, half-plane clipping, atan2 triangle areas).
    """
    from scipy.optimize import linprog
    Q = np.asarray(Q, dtype=float)
    E = _orth_complement(Q[i] - Q[j])
    others = np.array([k for k in range(len(Q)) if k != i and k != j])
    G = Q[i][None, :] - Q[others]
    G /= np.linalg.norm(G, axis=1)[:, None]
    g = G @ E                                             # (M,3) constraints g.y >= 0
    # maximise t subject to g.y >= t, |y_c| <= 1
    c = np.array([0, 0, 0, -1.0])
    A = np.hstack([-g, np.ones((len(g), 1))])
    res = linprog(c, A_ub=A, b_ub=np.zeros(len(g)), bounds=[(-1, 1)] * 3 + [(None, 1)], method="highs",
                  options={"primal_feasibility_tolerance": 1e-10, "dual_feasibility_tolerance": 1e-10})
    if res.status != 0:
        return 0.0, 0.0, 0, "lp_failed"
    y = res.x[:3]
    ny = np.linalg.norm(y)
    if ny < 1e-12:
        return 0.0, 0.0, 0, "ok"
    cvec = y / ny
    margin = float((g @ cvec).min())
    if margin <= 0:
        return margin, 0.0, 0, "ok"
    area, nv, bounded = _chart_area(g, cvec, big)
    if bounded:
        return margin, area, nv, "ok"
    # the face does not fit into the open hemisphere around the LP centre (tiny grids): cut it into the eight octants of
    # an orthonormal frame; each octant lies within 54.8 degrees of its centre, so every piece is bounded in its own chart
    total, nv_total = 0.0, 0
    for sx in (-1.0, 1.0):
        for sy in (-1.0, 1.0):
            for sz in (-1.0, 1.0):
                signs = np.array([sx, sy, sz])
                g_oct = np.vstack([g, np.diag(signs)])
                a, nv, ok = _chart_area(g_oct, signs / np.sqrt(3), big)
                if not ok:
                    return margin, np.nan, 0, "unbounded_in_chart"
                total += a
                nv_total += nv
    return margin, total, nv_total, "ok"


def _chart_area(g, centre, big):
    """Area of the spherical convex polygon {y on S^2 : g.y >= 0} seen in the gnomonic chart at `centre` (only the part
    inside the open hemisphere around centre is representable; returns bounded=False if the polygon reaches the chart's
    bounding square)."""
    e = np.eye(3)[np.argmin(np.abs(centre))]
    e1 = e - centre * (e @ centre)
    e1 /= np.linalg.norm(e1)
    e2 = np.cross(centre, e1)
    normals = np.stack([g @ e1, g @ e2], axis=1)
    offsets = g @ centre
    order = np.argsort(offsets / np.maximum(np.linalg.norm(normals, axis=1), 1e-300))
    poly = np.array([[-big, -big], [big, -big], [big, big], [-big, big]])
    poly = clip_polygon_halfplanes(poly, normals[order], offsets[order])
    if len(poly) < 3:
        return 0.0, 0, True
    if np.abs(poly).max() >= big * (1 - 1e-9):
        return np.nan, len(poly), False
    V = centre[None, :] + poly[:, :1] * e1 + poly[:, 1:] * e2
    V /= np.linalg.norm(V, axis=1)[:, None]
    # fan from the first vertex (the polygon is convex)
    area = float(tri_solid_angle(V[0][None, :], V[1:-1], V[2:]).sum())
    return area, len(poly), True


def s3_candidate_pairs(Q):
    """Edges of the convex hull of Q in R^4: a superset of the Delaunay edges of points on the sphere (triangulating
    degenerate facets can only add edges)."""
    from scipy.spatial import ConvexHull
    hull = ConvexHull(Q, qhull_options="Qt")
    pairs = set()
    for s in hull.simplices:
        for a in range(4):
            for b in range(a + 1, 4):
                i, j = int(s[a]), int(s[b])
                pairs.add((min(i, j), max(i, j)))
    return pairs


def s3_self_test():
    problems = []
    # 16-cell: 8 points +-e_k; regions are the 8 cubical cells of the tesseract projected; every non-antipodal pair shares
    # a square face whose spherical area is (total area of the cube's boundary on S^3)/...: each region is 2 pi^2 / 8,
    # bounded by 6 congruent faces; a face is the gnomonic image of a unit-cube face seen from distance 1/2... closed form:
    Q = np.vstack([np.eye(4), -np.eye(4)])
    m, a, nv, st = s3_face(Q, 0, 1)
    # face between e0 and e1: points with x0 = x1 >= |x2|, |x3| on S^3: a spherical square; its area by direct integration
    # equals that of the square pyramid base seen from the centre: 4 * atan2 formula below
    v = np.array([[1, 1, 1, 1], [1, 1, 1, -1], [1, 1, -1, -1], [1, 1, -1, 1]], dtype=float)
    v /= np.linalg.norm(v, axis=1)[:, None]
    E = _orth_complement(Q[0] - Q[1])
    w = v @ E
    c = np.array([1, 1, 0, 0]) / np.sqrt(2) @ E
    want = float(tri_solid_angle(c[None, :], w, np.roll(w, -1, axis=0)).sum())
    if st != "ok" or nv != 4 or abs(a - want) > 1e-12 or m <= 0:
        problems.append(f"16-cell face: area {a} vs {want}, {nv} vertices, status {st}")
    m, a, nv, st = s3_face(Q, 0, 4)  # antipodes share nothing
    if m > 1e-12:
        problems.append(f"antipodal pair has margin {m}")
    # tesseract vertices (16 points): regions are the 16 cells of the 16-cell; neighbours differ in exactly one sign
    T = np.array([[a, b, c2, d] for a in (-1, 1) for b in (-1, 1) for c2 in (-1, 1) for d in (-1, 1)], dtype=float) / 2
    m1, a1, nv1, _ = s3_face(T, 15, 14)     # differ in one coordinate -> triangular face
    m2, a2, nv2, _ = s3_face(T, 15, 12)     # differ in two coordinates -> only an edge in common
    if m1 <= 1e-3 or m2 > 1e-12 or abs(a1 - PI / 2) > 1e-12:
        problems.append(f"tesseract: neighbour face {nv1} vertices margin {m1}; edge contact margin {m2}")
    # the four faces of one region tile its boundary: region = regular spherical tetrahedron with vertices +-e_k pattern
    want = float(tri_solid_angle(*[(np.eye(4)[k] @ _orth_complement(T[15] - T[14]))[None, :] for k in (0, 1, 2)])[0])
    if abs(a1 - want) > 1e-12:
        problems.append(f"tesseract face area {a1} vs {want}")
    return problems
