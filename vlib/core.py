"""
Common machinery for all property checks: repository import, quiet calls, recorder (evidence),
parallel map, sharded Hypothesis runs, replay files, known findings, exit codes.

Exit codes: 0 held (possibly KNOWN-FINDING lines), 1 violation (VIOLATION line), 2 harness error.
"""
from __future__ import annotations

import contextlib
import hashlib
import io
import json
import os
import sys
import time
import traceback
from collections import Counter
from concurrent.futures import ProcessPoolExecutor

VERIF_DIR = os.path.dirname(os.path.dirname(os.path.abspath(__file__)))
REPO = os.environ.get("VERIF_REPO", "/repo")
SEED = int(os.environ.get("VERIF_SEED", "1") or "1")
NPROC = int(os.environ.get("VERIF_NPROC", "16"))


class HarnessError(Exception):
    """Something is wrong with the checking machinery itself (exit 2, never a VIOLATION)."""


def setup_repo_import():
    """Put the repository's working tree first on sys.path and make sure that is what gets imported."""
    if sys.path[0] != REPO:
        sys.path.insert(0, REPO)
    import molgri  # noqa
    origin = os.path.realpath(os.path.dirname(os.path.abspath(molgri.__file__)))
    if not origin.startswith(os.path.realpath(REPO).rstrip("/") + "/"):
        raise HarnessError(f"molgri imported from {origin}, expected below {REPO}")
    import warnings
    warnings.filterwarnings("ignore")


class _Sink(io.TextIOBase):
    def write(self, s):
        return len(s)


_SINK = _Sink()


@contextlib.contextmanager
def quiet():
    """The library prints a lot; its stdout is dropped, never parsed."""
    with contextlib.redirect_stdout(_SINK):
        yield


def q(func, *args, **kwargs):
    with quiet():
        return func(*args, **kwargs)


def canon(obj):
    """Canonical json-able form (numpy -> python) used for hashing and for samples / replay files."""
    import numpy as np
    if isinstance(obj, dict):
        return {str(k): canon(v) for k, v in obj.items()}
    if isinstance(obj, (list, tuple)):
        return [canon(v) for v in obj]
    if isinstance(obj, np.ndarray):
        return canon(obj.tolist())
    if isinstance(obj, (np.integer,)):
        return int(obj)
    if isinstance(obj, (np.floating,)):
        return canon(float(obj))
    if isinstance(obj, (np.bool_,)):
        return bool(obj)
    if isinstance(obj, float):
        if obj != obj:
            return "nan"
        if obj in (float("inf"), float("-inf")):
            return "inf" if obj > 0 else "-inf"
        return obj
    if isinstance(obj, (set, frozenset)):
        return sorted(canon(v) for v in obj)
    if isinstance(obj, bytes):
        return obj.decode("latin-1")
    return obj


def digest(obj) -> str:
    return hashlib.sha256(json.dumps(canon(obj), sort_keys=True).encode()).hexdigest()[:16]


class Result:
    """Mergeable record of what a (part of a) run covered."""

    MAX_SAMPLES = 6
    MAX_VIOLATIONS = 20

    def __init__(self):
        self.evaluations = 0
        self.nontrivial = set()
        self.classes = Counter()
        self.samples = []
        self.violations = []  # list of {"case":..., "message":...}
        self.known = Counter()  # key -> count (excluded by construction)
        self.known_what = {}
        self.undecided = 0
        self.notes = []
        self.extra = {}

    # -- recording ---------------------------------------------------------------------------------------------------
    def case(self, sample=None, nontrivial=False, key=None, classes=()):
        """One evaluated case. `key` (default: the sample) identifies distinct cases for distinct_nontrivial."""
        self.evaluations += 1
        if nontrivial:
            self.nontrivial.add(digest(key if key is not None else sample))
        for c in classes:
            self.classes[c] += 1
        if sample is not None:
            n = self.evaluations
            if len(self.samples) < self.MAX_SAMPLES:
                self.samples.append(canon(sample))
            else:
                # deterministic reservoir: keep cases spread over the run
                h = int(digest([n, "s"]), 16)
                if h % n < self.MAX_SAMPLES // 2:
                    self.samples[self.MAX_SAMPLES // 2 + h % (self.MAX_SAMPLES - self.MAX_SAMPLES // 2)] = canon(sample)

    def violation(self, case, message):
        if len(self.violations) < self.MAX_VIOLATIONS:
            self.violations.append({"case": canon(case), "message": str(message)[:2000]})

    def known_finding(self, key, what):
        self.known[key] += 1
        self.known_what[key] = what

    def merge(self, other: "Result"):
        self.evaluations += other.evaluations
        self.nontrivial |= other.nontrivial
        self.classes.update(other.classes)
        for s in other.samples:
            if len(self.samples) < 2 * self.MAX_SAMPLES:
                self.samples.append(s)
        for v in other.violations:
            if len(self.violations) < self.MAX_VIOLATIONS:
                self.violations.append(v)
        self.known.update(other.known)
        self.known_what.update(other.known_what)
        self.undecided += other.undecided
        self.notes.extend(other.notes)
        for k, v in other.extra.items():
            if isinstance(v, (int, float)) and isinstance(self.extra.get(k, 0), (int, float)):
                self.extra[k] = self.extra.get(k, 0) + v
            else:
                self.extra.setdefault(k, v)
        return self


def _worker_call(payload):
    func, arg = payload
    setup_repo_import()
    os.environ.setdefault("PYTHONHASHSEED", "0")
    try:
        with quiet():
            return ("ok", func(arg))
    except Exception:  # harness problem in a worker
        return ("err", traceback.format_exc())


def pmap(func, items, procs=None):
    """Run func(item) for every item in worker processes; func must be a module-level function returning a
    picklable value (usually a Result). A crashing worker is a harness error."""
    items = list(items)
    procs = min(procs or NPROC, max(1, len(items)))
    out = []
    if procs == 1:
        for it in items:
            status, val = _worker_call((func, it))
            if status == "err":
                raise HarnessError(val)
            out.append(val)
        return out
    import multiprocessing as mp
    with ProcessPoolExecutor(max_workers=procs, mp_context=mp.get_context("fork")) as ex:
        for status, val in ex.map(_worker_call, [(func, it) for it in items], chunksize=1):
            if status == "err":
                raise HarnessError(val)
            out.append(val)
    return out


def merge_results(results):
    total = Result()
    for r in results:
        total.merge(r)
    return total


# ----------------------------------------------------------------------------------------------------------------------
# Hypothesis glue
# ----------------------------------------------------------------------------------------------------------------------

class Failed(AssertionError):
    """Raised inside a Hypothesis test when the oracle rejects a case."""

    def __init__(self, case, message):
        super().__init__(message)
        self.case = case
        self.message = message


def run_hypothesis(test_builder, res: Result, shard: int, max_examples: int, shrink=True, stateful=False,
                   step_count=None):
    """
    test_builder(res, fail) must return a Hypothesis test function (already decorated with @given) or, if
    stateful=True, a RuleBasedStateMachine class. The test calls fail(case, message) on a violation, which
    remembers the case and raises; after shrinking, the last remembered case is the minimal one and is recorded.
    Health-check failures and other Hypothesis errors are harness errors.
    """
    import hypothesis
    from hypothesis import settings, Phase, HealthCheck, seed as hseed
    from hypothesis.errors import HypothesisException

    last = {}

    def fail(case, message):
        last["case"] = case
        last["message"] = message
        raise Failed(case, message)

    phases = [Phase.explicit, Phase.generate, Phase.target]
    if shrink:
        phases.append(Phase.shrink)
    kwargs = dict(max_examples=max_examples, deadline=None, database=None, report_multiple_bugs=False,
                  phases=phases, suppress_health_check=list(HealthCheck), print_blob=False)
    if step_count is not None:
        kwargs["stateful_step_count"] = step_count
    st = settings(**kwargs)
    the_seed = SEED * 1000 + shard
    target = test_builder(res, fail)
    try:
        if stateful:
            from hypothesis.stateful import run_state_machine_as_test
            run_state_machine_as_test(hseed(the_seed)(target), settings=st)
        else:
            hseed(the_seed)(st(target))()
    except Failed as e:
        res.violation(last.get("case", e.case), last.get("message", e.message))
    except HypothesisException as e:
        if "case" in last and type(e).__name__ in ("FlakyFailure", "Flaky"):
            # the oracle rejected this case on one execution and accepted it on the re-run: the code under test is not a
            # function of its input (e.g. depends on solver-internal state). Each rejection was a real violation of that run.
            res.violation(last["case"], "[not reproducible on immediate re-run] " + str(last["message"]))
        else:
            raise HarnessError(f"hypothesis: {type(e).__name__}: {e}")
    except Exception as e:
        # an exception from the code under test that the property did not turn into fail(): treat as a violation of
        # "no internal error" only if the property module said so by calling fail; otherwise it is a harness problem
        if "case" in last:
            res.violation(last["case"], last["message"])
        else:
            raise HarnessError("".join(traceback.format_exception(type(e), e, e.__traceback__)))
    return res


# ----------------------------------------------------------------------------------------------------------------------
# Known findings, evidence, replay, exit
# ----------------------------------------------------------------------------------------------------------------------

def load_known(prop_id):
    path = os.path.join(VERIF_DIR, "known_findings.json")
    with open(path) as f:
        data = json.load(f)
    return [e for e in data["findings"] if e["property"] == prop_id and e["status"] == "known"]


def write_replay(prop_id, violation):
    rdir = os.environ.get("VERIF_REPLAY_DIR") or os.path.join(VERIF_DIR, "replays")
    os.makedirs(rdir, exist_ok=True)
    body = {"property": prop_id, "case": violation["case"], "message": violation["message"]}
    name = f"{prop_id}-{digest(violation['case'])[:8]}.json"
    path = os.path.join(rdir, name)
    with open(path, "w") as f:
        json.dump(body, f, indent=1, sort_keys=True)
    return os.path.relpath(path, VERIF_DIR) if path.startswith(VERIF_DIR + "/") else path


def finish(prop_id, tier, res: Result, rule: str, wall_s: float, assumptions=(), exhaustive=False, extra=None):
    """Write evidence, print KNOWN-FINDING / VIOLATION lines, return the exit code."""
    coverage = {
        "evaluations": int(res.evaluations),
        "distinct_nontrivial": int(len(res.nontrivial)),
        "rule": rule,
        "samples": res.samples[:12],
        "classes": dict(sorted(res.classes.items())),
        "excluded_known_findings": {k: int(v) for k, v in sorted(res.known.items())},
        "undecided_grey_zone": int(res.undecided),
        "exhaustive": bool(exhaustive),
    }
    if res.notes:
        coverage["notes"] = res.notes[:20]
    if res.extra:
        coverage.update(canon(res.extra))
    if extra:
        coverage.update(canon(extra))
    evidence = {
        "property_id": prop_id,
        "tier": tier,
        "seed": SEED,
        "level": "exploration",
        "coverage": coverage,
        "assumptions": list(assumptions),
        "wall_s": round(float(wall_s), 2),
        "violations": len(res.violations),
    }
    edir = os.environ.get("VERIF_EVIDENCE_DIR") or os.path.join(VERIF_DIR, "evidence")
    os.makedirs(edir, exist_ok=True)
    with open(os.path.join(edir, f"{prop_id}.json"), "w") as f:
        json.dump(evidence, f, indent=1, sort_keys=True)
    for key in sorted(res.known):
        print(f"KNOWN-FINDING: property={prop_id} {res.known_what[key]} [{key}] (x{res.known[key]})")
    code = 0
    seen = set()
    for v in res.violations:
        d = digest(v["case"])
        if d in seen:
            continue
        seen.add(d)
        path = write_replay(prop_id, v)
        print(f"VIOLATION property={prop_id} replay={path}")
        print("  " + v["message"].replace("\n", "\n  ")[:1500])
        code = 1
    print(f"{prop_id} {tier} seed={SEED}: evaluations={res.evaluations} distinct_nontrivial={len(res.nontrivial)} "
          f"violations={len(res.violations)} undecided={res.undecided} wall={wall_s:.1f}s "
          f"classes={dict(sorted(res.classes.items()))}")
    if code == 0 and (res.evaluations < 1 or len(res.nontrivial) < 2):
        raise HarnessError("vacuous run: fewer than 2 distinct non-trivial cases")
    return code


def main(argv=None):
    import argparse
    import importlib
    ap = argparse.ArgumentParser()
    ap.add_argument("prop")
    ap.add_argument("--tier", default=os.environ.get("VERIF_TIER", "quick"), choices=["quick", "thorough"])
    ap.add_argument("--replay", default=None)
    args = ap.parse_args(argv)
    prop_id = args.prop.upper()
    os.environ.setdefault("PYTHONHASHSEED", "0")
    t0 = time.time()
    try:
        setup_repo_import()
        if VERIF_DIR not in sys.path:
            sys.path.insert(1, VERIF_DIR)
        mod = importlib.import_module(f"props.{prop_id.lower()}")
        if args.replay:
            with open(args.replay if os.path.isabs(args.replay) else os.path.join(VERIF_DIR, args.replay)) as f:
                body = json.load(f)
            with quiet():
                msgs = mod.replay(body["case"])
            if msgs:
                print(f"VIOLATION property={prop_id} replay={args.replay}")
                for m in msgs[:10]:
                    print("  " + str(m)[:1500])
                return 1
            print(f"replay {args.replay}: property holds on this case now")
            return 0
        if hasattr(mod, "self_test"):
            with quiet():
                problems = mod.self_test()
            if problems:
                raise HarnessError(f"oracle self-test failed: {problems}")
        with quiet():
            res, rule, info = mod.run(args.tier)
            # seconds-long replay tier: minimal failing cases saved from earlier findings, run through the plain oracle
            import glob
            for path in sorted(glob.glob(os.path.join(VERIF_DIR, "regress", f"{prop_id}-*.json"))):
                with open(path) as f:
                    body = json.load(f)
                msgs = mod.replay(body["case"])
                res.case(sample=None, nontrivial=True, key=["regress", os.path.basename(path)], classes=["regression_replay"])
                if msgs:
                    res.violation(body["case"], f"saved regression case {os.path.basename(path)} fails again: " + "; ".join(map(str, msgs[:3])))
        return finish(prop_id, args.tier, res, rule, time.time() - t0, **info)
    except HarnessError as e:
        print(f"HARNESS-ERROR {prop_id}: {e}", file=sys.stderr)
        return 2
    except Exception:
        print(f"HARNESS-ERROR {prop_id}: {traceback.format_exc()}", file=sys.stderr)
        return 2


def run_fuzz_campaign(prop_id, runs, shards=8):
    """atheris campaigns (one process per shard, own corpus dir, seed derived from VERIF_SEED). Returns a Result."""
    import subprocess
    import tempfile
    import shutil
    res = Result()
    if not os.path.isdir(os.path.join(VERIF_DIR, ".deps", "atheris")):
        res.notes.append("atheris is not installed (setup.sh): coverage-guided campaign skipped")
        return res
    base = tempfile.mkdtemp(prefix=f"fuzz-{prop_id}-")
    procs = []
    try:
        for sh in range(shards):
            out = os.path.join(base, str(sh))
            env = dict(os.environ, VERIF_REPO=REPO)
            procs.append((out, subprocess.Popen(["/venv/bin/python", os.path.join(VERIF_DIR, "vlib", "fuzz_main.py"), prop_id.lower(),
                                                 str(runs // shards), str(SEED * 100 + sh + 1), out], env=env,
                                                stdout=subprocess.DEVNULL, stderr=subprocess.PIPE, text=True)))
        for out, p in procs:
            _, err = p.communicate()
            sp = os.path.join(out, "stats.json")
            if not os.path.exists(sp):
                raise HarnessError(f"fuzz shard produced no statistics (exit {p.returncode}): {err[-600:]}")
            with open(sp) as f:
                st = json.load(f)
            res.evaluations += st["decoded"]
            res.classes["atheris_executions"] += st["executions"]
            res.classes["atheris_decoded_cases"] += st["decoded"]
            for k, s in enumerate(st["samples"][:2]):
                res.samples.append(canon(s))
            for k in range(st["nontrivial"]):
                res.nontrivial.add(digest(["fuzz", out, k]))
            vp = os.path.join(out, "violation.json")
            if os.path.exists(vp):
                with open(vp) as f:
                    v = json.load(f)
                res.violation(v["case"], "[atheris] " + v["message"])
            elif p.returncode not in (0,):
                raise HarnessError(f"fuzz shard exited {p.returncode}: {err[-600:]}")
    finally:
        shutil.rmtree(base, ignore_errors=True)
    return res
