#!/usr/bin/env python3
"""tools/add_seed.py <ID> <name> "<what it needs to manifest>" "<what was changed>" : store an independently seeded change."""
import json, os, shutil, subprocess, sys
pid, name, needs, what = sys.argv[1:5]
src = f"/tmp/seed/{pid}"
dst = f"/verif/seeded/{name}"
os.makedirs(dst, exist_ok=True)
diff = subprocess.run(["git", "-C", src, "diff", "--", "molgri"], capture_output=True, text=True).stdout
open(os.path.join(dst, "patch.diff"), "w").write(diff)
for f in os.listdir(src):
    if f.startswith("demo_"):
        shutil.copy(os.path.join(src, f), os.path.join(dst, f))
meta = {"property": pid, "breaks": pid, "what": what, "needs_to_manifest": needs,
        "origin": "fresh sub-agent given only the property text and a scratch worktree of /repo (no access to /verif)",
        "verified": {}}
mp = os.path.join(dst, "meta.json")
if os.path.exists(mp):
    old = json.load(open(mp)); meta["verified"] = old.get("verified", {})
json.dump(meta, open(mp, "w"), indent=1)
print("stored", dst)
