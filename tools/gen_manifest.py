#!/usr/bin/env python3
"""Regenerate MANIFEST.json from the table below (kept in one place so it always validates)."""
import json, os
HERE = os.path.dirname(os.path.dirname(os.path.abspath(__file__)))

CHECKS = {}
def add(pid, technique, text, note, design):
    CHECKS[pid] = dict(technique=technique, text=text, note=note, design=design)

exec(open(os.path.join(HERE, "tools", "manifest_table.py")).read())

# what the six rounds of independently seeded changes added to each check (DESIGN.md section 8.5)
HISTORIES = {
 "C01": "Also: a call history on one model object (D, a*D, D again; inputs compared afterwards), V and E as integer-dtype arrays, volumes scaled by 1e-13..1e5, energy ramps, and large sparse models (n around powers of two up to 140 000 and around sqrt(2^31), int32/int64 indices).",
 "C02": "Also: getters in a generated order, then get_full_prefactors() and in-place edits of every handed-out object, then all getters again; unsorted radii, more than 500 position cells, factors 1e-4..1e3.",
 "C03": "Also: the caller edits the handed-out matrices in place and asks the same object again; a second object asked in another getter order.",
 "C04": "Also: in-place edits of the handed-out matrices before a second round of getters; probes at randomQ 84, 101, 150 and one beyond the bound (280).",
 "C05": "Also: the 2-argument range form; generated getter order, in-place edits of the results, second pass; the Cartesian variant of the same grids queried first in the same process; 7..64 shells, nearly regular and thin shells.",
 "C06": "Also: per-grid getter order, in-place edits, second pass; the spherical variant of the same grids queried first; thin shells and unsorted radii with a conditioning-aware tolerance.",
 "C07": "Also: N up to 2562 for every direction algorithm, sessions of several grids of one algorithm in one process (sizes down and up), the grid held by a FullGrid after use, a prefix sweep over every N.",
 "C08": "Also: getters optionally followed by an in-place edit of the handed-out object, keyword variants (only_orientation / only_position) as getters, full-grid specifications in the pool.",
 "C09": "Also: the full array and the position array edited in place before the second call; 13-decimal radii, more than 256 / 4096 rows.",
 "C10": "Also: the grid array reordered in place between construction and first use; one-molecule universes edited in place, PtWriter call histories (write_structure before the first access), integer / float32 arrays, small-angle rotations.",
 "C11": "Also: chain molecules with the backbone on the long axis (found known finding F17), more than 256 rotations, a 5347-frame trajectory.",
 "C12": "Also: the mode flag as Python bool / numpy bool / integer; the same object asked for the other mode first and its result edited in place, unsorted / repeated lag lists in the all-tau helper, 65 535..3e6 cells, more than 10 000 frames.",
 "C13": "Also: cut_and_merge on chains of up to 70 001 cells against the sparse lumping; several cut_and_merge calls with different limits on one SQRA object, equivalent argument forms, matrix magnitudes 1e-13..1e7, up to 300 cells.",
 "C14": "Also: factors 5e-4..60 (cell volumes below 1e-8), energy ramps over 8..14 shells, a second rate matrix from the same loaded objects, varying save order; stationarity judged column-wise (underflow-safe).",
 "C15": "Also: volumes asked after the neighbour getters on a second object, after a caller scaled a returned array, and from the rotation grid inside a FullGrid after get_total_volumes(); same-N grids of both algorithms in one process.",
 "C16": "Also: negative members down to 5e-324 and linspace/range forms running below zero must be rejected.",
 "C17": "Also: the factory is asked for fulldiv with every N in 2..700 (3000), and names are constructed in sessions (sizes down and up in one process).",
 "C18": "Also: an observe rule calling the other read-only getters between divisions, N passed as numpy integers, cross-object sessions (hypercube cells, cube, icosahedron in one fresh process).",
 "C19": "Also: the position-mode flag as Python bool / numpy bool / integer; adjacency and distances requested with each optional selector (only_orientation / only_position).",
 "C20": "Also: legends differing only in case or surrounding blanks; a second grid written to the same paths while the first results are held; the energy frame and column edited in place before a second read from the same reader.",
}
for _pid, _t in HISTORIES.items():
    if _pid in CHECKS:
        CHECKS[_pid]["text"] = CHECKS[_pid]["text"].rstrip() + " " + _t

props = [json.loads(l)["id"] for l in open(os.path.join(HERE, "properties.jsonl"))]
checks = []
for pid in props:
    if pid not in CHECKS:
        continue
    c = CHECKS[pid]
    checks.append({
        "property_id": pid,
        "quick_cmd": f"./check {pid} --tier quick",
        "thorough_cmd": f"./check {pid} --tier thorough",
        "evidence_file": f"/verif/evidence/{pid}.json",
        "replay_cmd_template": f"./check {pid} --replay {{path}}",
        "engine": "pbt",
        "level_claimed": {"category": "exploration", "text": c["text"], "design_ref": c["design"]},
        "level_note": c["note"],
        "technique": c["technique"],
    })
na = [{"property_id": pid, "reason": NOT_APPLICABLE.get(pid, "check not built yet in this session (see DESIGN.md section 5 for the planned design)")}
      for pid in props if pid not in CHECKS]
manifest = {
    "version": 1,
    "setup_cmd": "./setup.sh",
    "hooks": {
        "guard": "MOLGRI_VERIF",
        "enable": "no hooks are needed: every property is observable through public functions; checks import /repo's working tree directly (fresh interpreter per check and per worker)",
        "baseline_off_cmd": "cd /repo && /venv/bin/python -m pytest -ra -q -p no:cacheprovider --timeout=900 --continue-on-collection-errors",
        "source_commits": [],
        "add_only": True,
    },
    "engines": [{"name": "pbt", "path": "/verif/vlib", "serves_properties": [c["property_id"] for c in checks],
                 "kind_free_text": "property-based testing: Hypothesis strategies and rule-based state machines, exhaustive enumeration of finite domains over a 16-process pool, independent first-principles oracles (numpy/scipy), replay files"}],
    "checks": checks,
    "notes": "All checks: ./check <ID> --tier quick|thorough; VERIF_SEED seeds every generator; exit 0 held / 1 VIOLATION / 2 harness error. Genuine defects found are listed in known_findings.json (fixed ones name their 'fix:' commit in /repo).",
    "not_applicable": na,
}
json.dump(manifest, open(os.path.join(HERE, "MANIFEST.json"), "w"), indent=1)
print("MANIFEST.json:", len(checks), "checks,", len(na), "not claimed")
