#!/usr/bin/env python3
"""Regenerate MANIFEST.json from the table below (kept in one place so it always validates)."""
import json, os
HERE = os.path.dirname(os.path.dirname(os.path.abspath(__file__)))

CHECKS = {}
def add(pid, technique, text, note, design):
    CHECKS[pid] = dict(technique=technique, text=text, note=note, design=design)

exec(open(os.path.join(HERE, "tools", "manifest_table.py")).read())

props = [json.loads(l)["id"] for l in open(os.path.join(HERE, "properties.jsonl"))]
checks = []
for pid in props:
    if pid not in CHECKS:
        continue
    c = CHECKS[pid]
    checks.append({
        "property_id": pid,
        "quick_cmd": f"./check {pid} --tier quick",
        "thorough_cmd": f"./check {pid} --tier thorough",
        "evidence_file": f"/verif/evidence/{pid}.json",
        "replay_cmd_template": f"./check {pid} --replay {{path}}",
        "engine": "pbt",
        "level_claimed": {"category": "exploration", "text": c["text"], "design_ref": c["design"]},
        "level_note": c["note"],
        "technique": c["technique"],
    })
na = [{"property_id": pid, "reason": NOT_APPLICABLE.get(pid, "check not built yet in this session (see DESIGN.md section 5 for the planned design)")}
      for pid in props if pid not in CHECKS]
manifest = {
    "version": 1,
    "setup_cmd": "./setup.sh",
    "hooks": {
        "guard": "MOLGRI_VERIF",
        "enable": "no hooks are needed: every property is observable through public functions; checks import /repo's working tree directly (fresh interpreter per check and per worker)",
        "baseline_off_cmd": "cd /repo && /venv/bin/python -m pytest -ra -q -p no:cacheprovider --timeout=900 --continue-on-collection-errors",
        "source_commits": [],
        "add_only": True,
    },
    "engines": [{"name": "pbt", "path": "/verif/vlib", "serves_properties": [c["property_id"] for c in checks],
                 "kind_free_text": "property-based testing: Hypothesis strategies and rule-based state machines, exhaustive enumeration of finite domains over a 16-process pool, independent first-principles oracles (numpy/scipy), replay files"}],
    "checks": checks,
    "notes": "All checks: ./check <ID> --tier quick|thorough; VERIF_SEED seeds every generator; exit 0 held / 1 VIOLATION / 2 harness error. Genuine defects found are listed in known_findings.json (fixed ones name their 'fix:' commit in /repo).",
    "not_applicable": na,
}
json.dump(manifest, open(os.path.join(HERE, "MANIFEST.json"), "w"), indent=1)
print("MANIFEST.json:", len(checks), "checks,", len(na), "not claimed")
