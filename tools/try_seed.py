#!/usr/bin/env python3
"""
Run checks against a seeded change without touching /repo: copy /repo's package (and tests) to a scratch directory outside
/repo and /verif, apply the patch there, run the named checks with VERIF_REPO pointing at the copy, remove the copy.

usage: tools/try_seed.py <seed-dir-or-patch.diff> [--checks C01,C13] [--tier quick] [--demo] [--keep]
  seed dir layout: patch.diff, demo_<ID>.py, meta.json ({"property": "C13", ...})
"""
import argparse, json, os, shutil, subprocess, sys, tempfile

VERIF = os.path.dirname(os.path.dirname(os.path.abspath(__file__)))
SCRATCH = os.environ.get("VERIF_SCRATCH", "/root/scratch/seeds")


def main():
    ap = argparse.ArgumentParser()
    ap.add_argument("seed")
    ap.add_argument("--checks", default=None)
    ap.add_argument("--tier", default="quick")
    ap.add_argument("--demo", action="store_true", help="also run the demonstration with and without the patch")
    ap.add_argument("--nproc", default="16")
    a = ap.parse_args()
    seed = os.path.abspath(a.seed)
    patch = seed if seed.endswith(".diff") else os.path.join(seed, "patch.diff")
    meta = {}
    if os.path.isdir(seed) and os.path.exists(os.path.join(seed, "meta.json")):
        meta = json.load(open(os.path.join(seed, "meta.json")))
    checks = (a.checks or meta.get("property", "")).split(",")
    os.makedirs(SCRATCH, exist_ok=True)
    d = tempfile.mkdtemp(prefix="seed-", dir=SCRATCH)
    rc_all = 0
    try:
        for sub in ("molgri", "tests", "input"):
            if os.path.exists(os.path.join("/repo", sub)):
                shutil.copytree(os.path.join("/repo", sub), os.path.join(d, sub), ignore=shutil.ignore_patterns("__pycache__", "*.pyc"))
        if os.path.isdir(seed):
            for f in os.listdir(seed):
                if f.startswith("demo_"):
                    shutil.copy(os.path.join(seed, f), os.path.join(d, f))
        if a.demo and os.path.isdir(seed):
            for f in os.listdir(seed):
                if f.startswith("demo_") and f.endswith(".py"):
                    pr = subprocess.run(["/venv/bin/python", os.path.join(d, f)], cwd=d, env=dict(os.environ, PYTHONPATH=d), capture_output=True, text=True)
                    print(f"demo {f} WITHOUT patch: exit {pr.returncode}")
        pr = subprocess.run(["patch", "-p1", "-s", "-i", patch], cwd=d, capture_output=True, text=True)
        if pr.returncode != 0:
            print("PATCH FAILED", pr.stdout, pr.stderr)
            return 2
        if a.demo and os.path.isdir(seed):
            for f in os.listdir(seed):
                if f.startswith("demo_") and f.endswith(".py"):
                    pr = subprocess.run(["/venv/bin/python", os.path.join(d, f)], cwd=d, env=dict(os.environ, PYTHONPATH=d), capture_output=True, text=True)
                    print(f"demo {f} WITH patch: exit {pr.returncode}: {(pr.stdout + pr.stderr).strip().splitlines()[-1][:200] if (pr.stdout + pr.stderr).strip() else ''}")
        for c in checks:
            if not c:
                continue
            env = dict(os.environ, VERIF_REPO=d, VERIF_NPROC=a.nproc, VERIF_EVIDENCE_DIR=os.path.join(d, "evidence"),
                       VERIF_REPLAY_DIR=os.path.join(d, "replays"))
            pr = subprocess.run([os.path.join(VERIF, "check"), c, "--tier", a.tier], env=env, capture_output=True, text=True)
            caught = pr.returncode == 1 and f"VIOLATION property={c}" in pr.stdout
            print(f"{c} {a.tier}: {'CAUGHT' if caught else ('HARNESS-ERROR' if pr.returncode == 2 else 'MISSED')} (exit {pr.returncode})")
            for l in (pr.stdout + pr.stderr).splitlines():
                if l.startswith(("VIOLATION", "  ", "HARNESS")):
                    print("   " + l[:300])
                    break
            if not caught:
                rc_all = 1
    finally:
        shutil.rmtree(d, ignore_errors=True)
    return rc_all


if __name__ == "__main__":
    sys.exit(main())
