NOT_APPLICABLE = {}
add("C12", "exhaustive enumeration of short trajectories + Hypothesis, against a naive counting reference model",
    "Every trajectory up to length 7 (8 thorough) over a small alphabet with NaN, every tau and both window modes is compared entry-wise with a naive implementation of the stated counting rule, plus the derived laws (row sums, [0,1], detailed balance, reversal); random long trajectories extend this to many cells and large tau. Exploration, not proof: bounds are the enumeration length and the random sizes.",
    "Trusted: numpy, the 15-line naive counter in props/c12.py. Assumes cell indices < total_num_cells.",
    "DESIGN.md section 5, C12")
add("C01", "Hypothesis-generated inputs against a dense reference evaluation of the formula + metamorphic relations",
    "Random symmetric patterns (incl. disconnected, isolated rows, empty), positive S/h/V over six decades, energies incl. pairs at and beyond the cap, all storage forms the package produces; every entry compared with a dense numpy evaluation of the stated capped formula (rtol 1e-10), zero row sums, detailed balance in log form, invariance under energy shift, linearity in D, storage-form independence. Exploration: thousands (quick) to 160 000 (thorough) generated inputs, n <= 14.",
    "Trusted: numpy/scipy.sparse constructors, the 10-line dense reference. T is kept high enough that the capped exponent stays inside float64 (the property does not claim finite results beyond).",
    "DESIGN.md section 5, C01")
