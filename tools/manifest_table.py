NOT_APPLICABLE = {}
add("C12", "exhaustive enumeration of short trajectories + Hypothesis, against a naive counting reference model",
    "Every trajectory up to length 7 (8 thorough) over a small alphabet with NaN, every tau and both window modes is compared entry-wise with a naive implementation of the stated counting rule, plus the derived laws (row sums, [0,1], detailed balance, reversal); random long trajectories extend this to many cells and large tau. Exploration, not proof: bounds are the enumeration length and the random sizes.",
    "Trusted: numpy, the 15-line naive counter in props/c12.py. Assumes cell indices < total_num_cells.",
    "DESIGN.md section 5, C12")
add("C01", "Hypothesis-generated inputs against a dense reference evaluation of the formula + metamorphic relations",
    "Random symmetric patterns (incl. disconnected, isolated rows, empty), positive S/h/V over six decades, energies incl. pairs at and beyond the cap, all storage forms the package produces; every entry compared with a dense numpy evaluation of the stated capped formula (rtol 1e-10), zero row sums, detailed balance in log form, invariance under energy shift, linearity in D, storage-form independence. Exploration: thousands (quick) to 160 000 (thorough) generated inputs, n <= 14.",
    "Trusted: numpy/scipy.sparse constructors, the 10-line dense reference. T is kept high enough that the capped exponent stays inside float64 (the property does not claim finite results beyond).",
    "DESIGN.md section 5, C01")
add("C13", "Hypothesis rule-based state machine + exhaustive enumeration of short histories against an explicit lumping model; metamorphic replays",
    "Every history of up to 3 merge/delete operations on <=3 (thorough: 4) cells over all set partitions and deletion subsets, plus thousands of generated histories (n<=9, up to 12/30 steps, overlapping/redundant/merged/deleted members) run on a dense and a csr matrix in lock-step next to an explicit model (disjoint sorted groups + block sums of the original matrix); index list, every entry, row sums, symmetry, dense==sparse, one-shot==step-wise, order/redundancy independence checked after every step; cut_and_merge checked for the four limit combinations. Exploration within those bounds.",
    "Trusted: numpy, the 60-line Model class. Both readings of 'link through a deleted cell' are accepted.",
    "DESIGN.md section 5, C13")
add("C16", "Hypothesis text generation of every accepted syntax against an exact rational (Fraction) model",
    "Tens of thousands (thorough: 400 000) of generated radial-grid strings in every accepted syntax, number spelling and whitespace; parsed radii compared with exact rational arithmetic x10 (rtol 1e-12), ordering, rejection of negative members, increments, the shell-boundary rule incl. single-radius and last-shell cases, and the identifier as the documented function of the array bytes (same array from another syntax -> same identifier).",
    "Trusted: fractions.Fraction, numpy. Not generated: negative zero, descending linspace/range, duplicate radii. Grids containing radius 0: increments/boundaries not judged.",
    "DESIGN.md section 5, C16")
add("C17", "exhaustive enumeration of a token language for both roles + Hypothesis text tokens, against the statement's validity predicate",
    "All 585 000 (name, role) pairs of 1..4 tokens over a 23-token alphabet (30 tokens thorough) are parsed; each outcome must be ValueError or a standard name satisfying every clause of the statement (valid algorithm for the role, N>=1, N=1 <=> zero algorithm, bare number -> default, no two numbers / two algorithms, fixed point of re-parsing); every distinct accepted standard name with N<=50 (300 thorough) is built by the factory and its points counted.",
    "Trusted: the 40-line predicate in props/c17.py. Names with a dimension tag are unspecified and skipped.",
    "DESIGN.md section 5, C17")
add("C19", "exhaustive enumeration of the small specification box, outcome classified against the allowed-exception oracle",
    "Every (n_b, n_o, n_t) in 1..5 x 1..5 x 1..3 (thorough 1..9 x 1..9 x 1..4), both position modes, three (six) algorithm pairs and bare-number names: construction plus all five getters must give the right shape or ValueError (QhullError allowed only for Cartesian n_o<3); other exceptions are bucketed by (type, innermost repository frame) so distinct root causes are reported separately.",
    "Trusted: numpy shape inspection. The box is a cost bound, not a claim about larger grids (those are C02-C06).",
    "DESIGN.md section 5, C19")
add("C20", "round trip through the package's writer/reader on a grid pool + Hypothesis text generation of xvg files against an independent line splitter",
    "84 (thorough 400+) grid specifications are written and read back and compared bit-for-bit incl. sparse format and entry order; thousands of generated GROMACS-style energy files (0..13 '#' lines, >=13 header lines, 1..10 legends, random padding) must be read into the exact frame (names, order, float(token) values), the single-column getter and the csv round trip must agree.",
    "Trusted: Python float(), numpy, pandas' csv writer. Values carry <=12 significant digits (measured limit of pandas' default float parser, not a property of the reader).",
    "DESIGN.md section 5, C20")
add("C07", "enumeration of (algorithm, N) against first-principles validity predicates (KD-tree separation, canonical half, double-cover layout)",
    "Quick: every N in 1..50 (3D) / 1..42 (4D) plus level boundaries and seeded larger N; thorough: every N up to 2563 (ico), 1539 (cube3D), 800 (randomS), 272 (cube4D, randomQ), fulldiv 8/40/272. Each grid: exact shape, unit norms (1e-12), pairwise separation incl. the stated lower bounds for polytope grids, canonical half, no two rows the same rotation, double cover == [G; -G] bit-exact, N=1 names give identity / z.",
    "Trusted: numpy, scipy cKDTree. fulldiv 2080 is beyond the cost bound.",
    "DESIGN.md section 5, C07")
add("C18", "Hypothesis rule-based state machine over one polytope object against exact integer / barycentric lattices",
    "Histories of divide / get_nodes / get_half_of_hypercube calls (generated N and projection flags) on ico, cube3D (to level 3 quick, 4 thorough) and the hypercube (level 1 / 2), plus one fixed history per polytope visiting every level to the bound; after every step the node set must match the independently built lattice one-to-one (1e-9), projections be node/|node|, the set be closed under negation, rows of earlier levels precede later ones, every earlier getter result stay a bit-exact prefix, and the half selection hold exactly one of each antipodal pair in index order.",
    "Trusted: the integer lattice generators and the independent icosahedron vertex/face table in props/c18.py (closed-form count self-test), scipy cKDTree.",
    "DESIGN.md section 5, C18")
add("C09", "Hypothesis-generated grid specifications and index sets against an index-arithmetic reference model",
    "Hundreds (thorough: 8 000) of generated specifications (both rotation algorithms with n_b in 1..12, three direction algorithms with n_o in 1..30, 1..4 unsorted decimal radii, both position modes): every row of the full array is compared with 10*radius*direction and the quaternion predicted by n div n_b / n mod n_b from separately constructed component grids; index helpers are compared with div/mod on generated index lists (repeats, list and array forms, None); the decomposition must return the three generating grids in order.",
    "Trusted: numpy integer arithmetic; component grids from separately constructed objects (their correctness is C07/C08).",
    "DESIGN.md section 5, C09")
add("C03", "enumeration of (algorithm, N) against a first-principles spherical Voronoi oracle (bisector great-circle clipping), every pair judged",
    "Every N in 4..64 plus level boundaries and seeded N to 400 (thorough: every N in 4..400 and samples to 1000) for ico, cube3D, randomS. For every pair (i,j) the bisector great circle is clipped by all other points in closed form; adjacency must equal 'arc length > 0' (grey zone 1e-12..1e-7 not judged, empty so far), border == arc length (2e-8), distance == great-circle angle (1e-12), area == sum of atan2 triangle areas (rtol 1e-9), areas > 0 summing to 4 pi, symmetry, empty diagonal, one pattern and entry order. Degenerate polytope grids (>=4 cells per vertex) are counted as a class.",
    "Trusted: numpy; the 60-line oracle in vlib/geom.py with closed-form self-tests (tetrahedron, octahedron, cube).",
    "DESIGN.md section 5, C03")
add("C05", "Hypothesis-generated (direction grid, radial text) pairs against the closed formulas evaluated with the independent spherical oracle",
    "Hundreds (thorough: 4 800) of generated position grids (three algorithms, N in 4..60 / 200, T in 2..6 radii in list / tuple / linspace / range syntax, non-uniform spacing): every cell volume (rtol 1e-10), every entry of the dense adjacency, border and distance matrices (exact pattern: radial +-n_o and same-shell spherical neighbours only; rtol 1e-9 plus the arc tolerance of C03) and the three sum rules are compared with the statement's formulas, with R_k from exact rational radii and area/arc/angle from vlib.geom.s2_voronoi rather than from the library.",
    "Trusted: numpy, fractions, the S^2 clipping oracle (self-tested).",
    "DESIGN.md section 5, C05")
add("C06", "enumeration of (direction grid, radial grid) against an independent Euclidean Voronoi oracle (half-plane clipping of bisector planes, half-space intersection volumes)",
    "Every N in 4..30 plus larger samples incl. 98/100/162 (thorough: every N in 4..100, 161-163, 200, 300) for three algorithms and seven radial grids with 1..4 radii: each cell volume vs the volume of the intersection of its bisector half spaces within the extended point set (rtol 1e-9), each reported border vs the area of the clipped bisector polygon (rtol 1e-7), each distance vs the Euclidean distance (1e-12), positivity, symmetry, pattern and entry order. Unbounded cells are detected by a 1e3-radius box. Known finding F8 (open cells of the sparsest direction grids) is matched by grid name and reported as KNOWN-FINDING; everything else alarms.",
    "Trusted: numpy, own 2-D Sutherland-Hodgman clipper (self-tested on cubic and bcc lattices), scipy HalfspaceIntersection+ConvexHull for volumes (a different qhull route than the library's Voronoi).",
    "DESIGN.md section 5, C06")
