NOT_APPLICABLE = {}
add("C12", "exhaustive enumeration of short trajectories + Hypothesis, against a naive counting reference model",
    "Every trajectory up to length 7 (8 thorough) over a small alphabet with NaN, every tau and both window modes is compared entry-wise with a naive implementation of the stated counting rule, plus the derived laws (row sums, [0,1], detailed balance, reversal); random long trajectories extend this to many cells and large tau. Exploration, not proof: bounds are the enumeration length and the random sizes.",
    "Trusted: numpy, the 15-line naive counter in props/c12.py. Assumes cell indices < total_num_cells.",
    "DESIGN.md section 5, C12")
