#!/usr/bin/env python3
"""Run every stored seeded change against its property's quick check (and the demonstration), record the outcome in
seeded/<name>/meta.json and write seeded/README.md. usage: tools/seed_report.py [name ...]"""
import json, os, re, subprocess, sys
VERIF = os.path.dirname(os.path.dirname(os.path.abspath(__file__)))
names = sys.argv[1:] or sorted(os.listdir(os.path.join(VERIF, "seeded")))
rows = []
for name in sorted(os.listdir(os.path.join(VERIF, "seeded"))):
    d = os.path.join(VERIF, "seeded", name)
    mp = os.path.join(d, "meta.json")
    if not os.path.isdir(d) or not os.path.exists(mp):
        continue
    meta = json.load(open(mp))
    if name in names:
        extra = meta.get("also_check", [])
        pr = subprocess.run([os.path.join(VERIF, "tools", "try_seed.py"), d, "--demo", "--nproc", "16",
                             "--checks", ",".join([meta["property"]] + extra)], capture_output=True, text=True)
        out = pr.stdout
        v = meta.setdefault("verified", {})
        m = re.search(r"WITHOUT patch: exit (\d+)", out)
        v["demo_without_patch_exit"] = int(m.group(1)) if m else None
        m = re.search(r"WITH patch: exit (\d+)", out)
        v["demo_with_patch_exit"] = int(m.group(1)) if m else None
        v["checks"] = {c: r for c, r in re.findall(r"^(C\d+) quick: (\w[\w-]*)", out, re.M)}
        sr = f"/root/scratch/seedtests/{name}.result"
        if os.path.exists(sr):
            v["pinned_test_suite_with_patch"] = open(sr).read().strip()
        v["commands"] = [f"tools/try_seed.py seeded/{name} --demo --checks {meta['property']}", f"tools/seed_suite.sh {name}"]
        json.dump(meta, open(mp, "w"), indent=1)
    v = meta.get("verified", {})
    rows.append((name, meta["property"], meta["what"], meta["needs_to_manifest"], v))
with open(os.path.join(VERIF, "seeded", "README.md"), "w") as f:
    f.write("# Independently seeded changes\n\nEach directory holds `patch.diff` (against /repo HEAD with the fix commits), the author's demonstration and "
            "`meta.json`. Authors were fresh sub-agents that saw only the property text and a scratch worktree.\n"
            "`tools/try_seed.py seeded/<name> --demo` re-runs demonstration and check on a scratch copy; nothing is ever applied in /repo.\n\n"
            "| seed | property | change | needs | demo without/with patch | pinned suite with patch | quick check |\n|---|---|---|---|---|---|---|\n")
    for name, pid, what, needs, v in rows:
        f.write(f"| {name} | {pid} | {what} | {needs} | {v.get('demo_without_patch_exit')}/{v.get('demo_with_patch_exit')} | "
                f"{v.get('pinned_test_suite_with_patch', 'n/a')} | {v.get('checks', {})} |\n")
print(open(os.path.join(VERIF, "seeded", "README.md")).read()[-1500:])
