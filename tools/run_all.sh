#!/bin/sh
# tools/run_all.sh [tier] : run every registered check once, print one line per check (exit code, last line)
TIER="${1:-quick}"
cd "$(dirname "$0")/.." || exit 2
rc_all=0
for id in $(python3 -c "import json; print(' '.join(c['property_id'] for c in json.load(open('MANIFEST.json'))['checks']))"); do
  out=$(./check "$id" --tier "$TIER" 2>&1); rc=$?
  echo "$id rc=$rc $(echo "$out" | grep -c '^KNOWN-FINDING') known | $(echo "$out" | tail -1 | cut -c1-160)"
  [ $rc -ne 0 ] && { rc_all=1; echo "$out" | grep -v '^KNOWN' | head -20; }
done
exit $rc_all
