#!/bin/sh
# tools/seed_suite.sh <seed-name> : run the repository's full pinned test suite on a scratch copy of /repo with the seeded patch applied
NAME="$1"
D=/root/scratch/seedtests/$NAME
rm -rf "$D"; mkdir -p "$D"
cd /repo && git archive HEAD | tar -x -C "$D"
cd "$D" && patch -p1 -s -i /verif/seeded/$NAME/patch.diff || { echo "PATCH FAILED" > /root/scratch/seedtests/$NAME.result; exit 2; }
PYTHONPATH="$D" /venv/bin/python -c "import molgri,sys; assert molgri.__file__.startswith('$D'), molgri.__file__"
PYTHONPATH="$D" OMP_NUM_THREADS=1 /venv/bin/python -m pytest -q -p no:cacheprovider --timeout=1800 --continue-on-collection-errors -x --deselect tests/test_pt.py::test_getting_each_molecule --deselect tests/test_pt.py::test_order_of_operations --deselect tests/test_pt.py::test_pt_len --deselect tests/test_pt.py::test_pt_rotations_body > /root/scratch/seedtests/$NAME.log 2>&1
tail -1 /root/scratch/seedtests/$NAME.log > /root/scratch/seedtests/$NAME.result
rm -rf "$D"
