#!/bin/sh
# Offline setup: hypothesis for the repository's interpreter; atheris (thorough-tier fuzz campaigns) into ./.deps
cd "$(dirname "$0")" || exit 1
/venv/bin/python -c "import hypothesis" 2>/dev/null || \
  /venv/bin/pip install --no-index --find-links /opt/veriftools/wheels hypothesis >/dev/null 2>&1
PYTHONPATH=./.deps /venv/bin/python -c "import atheris" 2>/dev/null || \
  /venv/bin/pip install --no-index --find-links /opt/veriftools/wheels atheris --target ./.deps >/dev/null 2>&1
/venv/bin/python -c "import hypothesis, numpy, scipy; print('setup ok: hypothesis', hypothesis.__version__)"
PYTHONPATH=./.deps /venv/bin/python -c "import atheris; print('atheris available')" 2>/dev/null || echo "atheris not available: thorough-tier fuzz campaigns will be skipped"
