#!/bin/sh
# Offline setup: make sure hypothesis is importable by the repository's interpreter.
/venv/bin/python -c "import hypothesis" 2>/dev/null || \
  /venv/bin/pip install --no-index --find-links /opt/veriftools/wheels hypothesis >/dev/null 2>&1
/venv/bin/python -c "import hypothesis, numpy, scipy; print('setup ok: hypothesis', hypothesis.__version__)"
