"""
C12  MSM transition matrix is the symmetrised, row-normalised lag-tau count matrix.

Generators: (a) exhaustive enumeration of all short trajectories over a small alphabet incl. NaN, every tau, both
window modes; (b) Hypothesis: long trajectories, many cells, NaN runs, tau larger than the trajectory.
Oracle: naive double loop implementing the counting rule of the statement + the derived laws (row sums, [0,1],
detailed balance w.r.t. visit counts, reversal invariance in sliding mode, agreement of the all-tau helper).
"""
import itertools

import numpy as np

from vlib.grids import scribble
from vlib.core import Result, pmap, merge_results, run_hypothesis, quiet, digest

NAN = float("nan")


def naive(traj, n_cells, tau, noncorr):
    L = len(traj)
    c = np.zeros((n_cells, n_cells))
    step = tau if noncorr else 1
    k = 0
    n_windows = 0
    while k < L - tau:
        a, b = traj[k], traj[k + tau]
        if a == a and b == b:
            c[int(a), int(b)] += 1
            n_windows += 1
        k += step
    sym = c + c.T
    rows = sym.sum(axis=1)
    T = np.zeros_like(sym)
    for i in range(n_cells):
        if rows[i] > 0:
            T[i] = sym[i] / rows[i]
    return T, rows, n_windows


def judge(case):
    """case: dict(traj=list (nan as None/'nan'), n_cells, tau, tau_form, noncorr). Returns list of messages."""
    from molgri.molecules.transitions import MSM
    traj = np.array([NAN if (x is None or x == "nan") else float(x) for x in case["traj"]], dtype=float)
    n = int(case["n_cells"])
    tau = int(case["tau"])
    form = case.get("tau_form", "int")
    tau_arg = {"int": tau, "np": np.int64(tau), "float": float(tau), "str": str(tau)}[form]
    noncorr = bool(case["noncorr"])
    # the mode flag as a caller may hold it: a Python bool, a numpy bool (element of a flag array, result of a comparison)
    # or an integer 0/1
    flag = {"bool": bool, "np": np.bool_, "int": int}[case.get("flag_form", "bool")]
    msgs = []
    try:
        with quiet():
            model = MSM(traj, n)
            if case.get("other_mode_first"):
                # the same object is first asked for the other windowing mode (and another lag), as an analysis comparing
                # both modes would do; what it answers afterwards must not depend on that
                other = np.asarray(model.get_one_tau_transition_matrix(tau_arg, noncorrelated_windows=not noncorr).todense(), dtype=float)
                want_other, _, _ = naive(traj, n, tau, not noncorr)
                if other.shape != want_other.shape or not np.allclose(other, want_other, atol=1e-12, rtol=0):
                    return [f"entry-wise mismatch in the {'non-overlapping' if not noncorr else 'sliding'} mode (first query on the object)"]
                model.get_one_tau_transition_matrix(tau + 1, noncorrelated_windows=noncorr)
            handed = model.get_one_tau_transition_matrix(tau_arg, noncorrelated_windows=flag(noncorr))
            got = np.array(handed.todense(), dtype=float)
            if case.get("other_mode_first"):
                # the matrix handed out belongs to the caller: scaling it in place must not change a later answer
                scribble(handed)
                later = np.array(model.get_one_tau_transition_matrix(tau_arg, noncorrelated_windows=noncorr).todense(), dtype=float)
                if later.shape != got.shape or not np.array_equal(later, got):
                    return ["the same MSM object answers differently after the caller edited the matrix it was handed in place"]
    except Exception as e:
        return [f"exception {type(e).__name__}: {e}"]
    original = np.array([NAN if (x is None or x == "nan") else float(x) for x in case["traj"]], dtype=float)
    if not np.array_equal(traj, original, equal_nan=True):
        return ["the trajectory array passed to MSM was modified"]
    want, rows, n_windows = naive(traj, n, tau, noncorr)
    if got.shape != (n, n):
        return [f"shape {got.shape} != {(n, n)}"]
    if not np.allclose(got, want, atol=1e-12, rtol=0):
        i, j = np.unravel_index(np.argmax(np.abs(got - want)), got.shape)
        msgs.append(f"entry ({i},{j}) = {got[i, j]!r}, counting rule gives {want[i, j]!r}")
    # derived laws, checked on the returned matrix itself
    rs = got.sum(axis=1)
    for i in range(n):
        target = 1.0 if rows[i] > 0 else 0.0
        if abs(rs[i] - target) > 1e-12:
            msgs.append(f"row {i} sums to {rs[i]!r}, expected {target}")
            break
    if got.size and (got.min() < -1e-15 or got.max() > 1 + 1e-12):
        msgs.append(f"entries outside [0,1]: min {got.min()} max {got.max()}")
    flux = rows[:, None] * got
    if not np.allclose(flux, flux.T, atol=1e-9, rtol=0):
        msgs.append("detailed balance w.r.t. visit counts violated")
    if not noncorr:
        with quiet():
            rev = MSM(traj[::-1].copy(), n).get_one_tau_transition_matrix(tau_arg, noncorrelated_windows=False)
        rev = np.asarray(rev.todense(), dtype=float)
        if not np.allclose(rev, got, atol=1e-12, rtol=0):
            msgs.append("sliding-window matrix changes when the trajectory is reversed")
    return msgs


def judge_large(case):
    """Large total_num_cells (the matrix is sparse for exactly this use): compare the stored entries with a dictionary
    model of the counting rule; nothing may be stored outside the model's support."""
    from molgri.molecules.transitions import MSM
    traj = np.array([NAN if (x is None or x == "nan") else float(x) for x in case["traj"]], dtype=float)
    n, tau, noncorr = int(case["n_cells"]), int(case["tau"]), bool(case["noncorr"])
    try:
        with quiet():
            got = MSM(traj, n).get_one_tau_transition_matrix(tau, noncorrelated_windows=noncorr).tocoo()
    except Exception as e:
        return [f"exception {type(e).__name__}: {e}"]
    if got.shape != (n, n):
        return [f"shape {got.shape}"]
    counts = {}
    step = tau if noncorr else 1
    for k in range(0, len(traj) - tau, step):
        a, b = traj[k], traj[k + tau]
        if a == a and b == b:
            a, b = int(a), int(b)
            counts[(a, b)] = counts.get((a, b), 0) + 1
            counts[(b, a)] = counts.get((b, a), 0) + 1
    rows = {}
    for (a, b), c in counts.items():
        rows[a] = rows.get(a, 0) + c
    want = {k: c / rows[k[0]] for k, c in counts.items()}
    seen = {}
    for r, c, v in zip(got.row.tolist(), got.col.tolist(), got.data.tolist()):
        if v != 0:
            seen[(r, c)] = seen.get((r, c), 0.0) + v
    for k, v in seen.items():
        if k not in want:
            return [f"entry {k} = {v!r} although the counting rule gives 0 (cell {k[0]} "
                    f"{'is never visited' if k[0] not in rows else 'has no such transition'})"]
        if abs(v - want[k]) > 1e-12:
            return [f"entry {k} = {v!r}, counting rule gives {want[k]!r}"]
    missing = [k for k in want if k not in seen]
    if missing:
        return [f"entry {missing[0]} missing, counting rule gives {want[missing[0]]!r}"]
    return []


def is_nontrivial(case):
    traj = case["traj"]
    tau = case["tau"]
    step = tau if case["noncorr"] else 1
    vals = [None if (x is None or x == "nan" or x != x) else x for x in traj]
    counted = any(vals[k] is not None and vals[k + tau] is not None for k in range(0, len(vals) - tau, step))
    present = [v for v in vals if v is not None]
    revisit = len(set(present)) < len(present)
    has_nan = any(v is None for v in vals)
    return counted and (revisit or has_nan)


def classes_of(case):
    out = ["noncorr" if case["noncorr"] else "sliding"]
    if any(x is None or x == "nan" for x in case["traj"]):
        out.append("has_nan")
    if len(case["traj"]) <= case["tau"]:
        out.append("shorter_than_tau")
    if len(set(x for x in case["traj"] if x is not None)) == 1:
        out.append("single_cell")
    out.append("tau_form=" + case.get("tau_form", "int"))
    if case.get("other_mode_first"):
        out.append("same_object_asked_for_other_mode_first")
    return out


def _exh_chunk(arg):
    alphabet, length, prefix, n_cells, taus = arg
    res = Result()
    rest = length - len(prefix)
    forms = ["int", "np", "float", "str"]
    idx = 0
    for tail in itertools.product(alphabet, repeat=rest):
        traj = list(prefix) + list(tail)
        for tau in taus:
            for noncorr in (False, True):
                idx += 1
                case = {"traj": traj, "n_cells": n_cells, "tau": tau, "noncorr": noncorr,
                        "tau_form": forms[idx % 4] if idx % 7 == 0 else "int", "other_mode_first": idx % 3 == 0,
                        "flag_form": ("bool", "np", "int")[idx % 3] if idx % 5 == 0 else "bool"}
                msgs = judge(case)
                res.case(sample=case if idx % 997 == 1 else None, nontrivial=is_nontrivial(case), key=case,
                         classes=classes_of(case))
                if msgs:
                    res.violation(case, "; ".join(msgs))
    return res


def _hyp_shard(arg):
    shard, n_examples = arg
    from hypothesis import given, strategies as st

    def builder(res, fail):
        @st.composite
        def cases(draw):
            n_cells = draw(st.integers(1, 15))
            used = draw(st.integers(1, n_cells))
            L = draw(st.integers(0, 300))
            nan_p = draw(st.sampled_from([0.0, 0.05, 0.3]))
            sticky = draw(st.booleans())
            elems = st.one_of(st.integers(0, used - 1), st.none()) if nan_p > 0 else st.integers(0, used - 1)
            traj = draw(st.lists(elems, min_size=L, max_size=L))
            if sticky and traj:
                # metastable trajectories: repeat each drawn state a few times (revisits and NaN runs)
                rep = draw(st.integers(1, 6))
                traj = [x for x in traj for _ in range(rep)][:300]
            tau = draw(st.integers(1, 40))
            return {"traj": traj, "n_cells": n_cells, "tau": tau, "noncorr": draw(st.booleans()),
                    "tau_form": draw(st.sampled_from(["int", "int", "np", "float", "str"])), "other_mode_first": draw(st.booleans()),
                    "flag_form": draw(st.sampled_from(["bool", "bool", "np", "int"]))}

        @given(cases())
        def test(case):
            msgs = judge(case)
            res.case(sample=case, nontrivial=is_nontrivial(case), key=case, classes=classes_of(case) + ["random"])
            if msgs:
                fail(case, "; ".join(msgs))
        return test

    res = Result()
    run_hypothesis(builder, res, shard, n_examples)

    def big_builder(res, fail):
        @st.composite
        def big_cases(draw):
            n_cells = draw(st.sampled_from([65535, 65536, 65537, 70000, 100000, 250000, 10 ** 6, 3 * 10 ** 6]))
            k = draw(st.integers(1, 6))
            # a handful of visited cells, biased to the ends of the index range
            cells = [draw(st.one_of(st.integers(0, 50), st.integers(n_cells - 50, n_cells - 1), st.integers(0, n_cells - 1)))
                     for _ in range(k)]
            L = draw(st.integers(2, 60))
            traj = [cells[draw(st.integers(0, k - 1))] if draw(st.integers(0, 9)) else None for _ in range(L)]
            return {"traj": traj, "n_cells": n_cells, "tau": draw(st.integers(1, 5)), "noncorr": draw(st.booleans()), "large": True}

        @given(big_cases())
        def test(case):
            msgs = judge_large(case)
            res.case(sample=case, nontrivial=is_nontrivial(case), key=case, classes=["large_cell_count(>=65535)"])
            if msgs:
                fail(case, "; ".join(msgs))
        return test
    run_hypothesis(big_builder, res, 500 + shard, max(10, n_examples // 4))

    def long_builder(res, fail):
        @st.composite
        def long_cases(draw):
            L = draw(st.sampled_from([9999, 10000, 10001, 10007, 12345, 20011, 31013]))
            n_cells = draw(st.integers(2, 6))
            rng = np.random.default_rng(draw(st.integers(0, 10 ** 6)))
            traj = rng.integers(0, n_cells, size=L).astype(float)
            traj[rng.random(L) < draw(st.sampled_from([0.0, 0.01]))] = NAN
            return {"traj": [None if x != x else int(x) for x in traj], "n_cells": n_cells,
                    "tau": draw(st.sampled_from([1, 2, 3, 6, 7, 9, 10, 64, 333])), "noncorr": draw(st.booleans()), "tau_form": "int"}

        @given(long_cases())
        def test(case):
            msgs = judge(case)
            res.case(sample={k: (v if k != "traj" else f"<{len(v)} frames>") for k, v in case.items()}, nontrivial=True,
                     key=[len(case["traj"]), case["tau"], case["noncorr"], case["n_cells"], digest(case["traj"][:200])],
                     classes=["long_trajectory(>=9999 frames)", "noncorr" if case["noncorr"] else "sliding"])
            if msgs:
                fail(case, "; ".join(msgs))
        return test
    run_hypothesis(long_builder, res, 900 + shard, 3, shrink=False)
    # the all-tau helper must agree with the single-tau function
    from molgri.molecules.transitions import MSM
    rng = np.random.default_rng([shard, 12])
    for rep in range(6):
        n = int(rng.integers(2, 8))
        traj = rng.integers(0, n, size=int(rng.integers(5, 60))).astype(float)
        traj[rng.random(len(traj)) < 0.1] = NAN
        # lag times as a caller lists them: increasing, decreasing, in arbitrary order, with repeats
        taus = rng.integers(1, 12, size=int(rng.integers(1, 6)))
        order = ["increasing", "as_drawn", "decreasing"][rep % 3]
        if order == "increasing":
            taus = np.array(sorted(set(int(t) for t in taus)))
        elif order == "decreasing":
            taus = np.array(sorted((int(t) for t in taus), reverse=True))
        for noncorr in (False, True):
            case = {"traj": traj.tolist(), "n_cells": n, "tau": taus.tolist(), "noncorr": noncorr, "all_tau": True}
            msgs = judge_all_tau(case)
            res.case(sample=None, nontrivial=True, key=case, classes=["all_tau_helper", f"all_tau_helper_taus_{order}"])
            if msgs:
                res.violation(case, "; ".join(msgs))
    return res


def judge_all_tau(case):
    """Entry i of the all-tau helper is the transition matrix of taus[i] (naive counting rule), whatever the order."""
    from molgri.molecules.transitions import MSM
    traj = np.array([NAN if (x is None or x == "nan") else float(x) for x in case["traj"]])
    taus = np.array(case["tau"])
    try:
        with quiet():
            allm = MSM(traj, case["n_cells"]).get_all_tau_transition_matrices(taus, noncorrelated_windows=case["noncorr"])
    except Exception as e:
        return [f"all-tau helper: exception {type(e).__name__}: {e}"]
    if len(allm) != len(taus):
        return [f"all-tau helper returns {len(allm)} matrices for {len(taus)} lag times"]
    for i, (t, m) in enumerate(zip(taus, allm)):
        want, _, _ = naive(traj, case["n_cells"], int(t), case["noncorr"])
        if not hasattr(m, "todense"):
            return [f"all-tau helper: entry {i} (tau={t}) of taus={taus.tolist()} is {m!r}, not a matrix"]
        if not np.allclose(np.asarray(m.todense()), want, atol=1e-12, rtol=0):
            return [f"all-tau helper: entry {i} of taus={taus.tolist()} is not the transition matrix of tau={t}"]
    return []


def replay(case):
    if case.get("large"):
        return judge_large(case)
    if case.get("all_tau"):
        return judge_all_tau(case)
    return judge(case)


def run(tier):
    if tier == "quick":
        alphabet, max_len, n_cells, taus = (0, 1, 2, None), 7, 4, (1, 2, 3, 4)
        n_hyp, shards = 1600, 16
    else:
        alphabet, max_len, n_cells, taus = (0, 1, 2, 3, None), 8, 5, (1, 2, 3, 4, 5)
        n_hyp, shards = 32000, 16
    jobs = []
    for L in range(0, max_len + 1):
        if L <= 4:
            jobs.append((alphabet, L, (), n_cells, taus))
        else:
            plen = 2 if L < max_len else 3
            for prefix in itertools.product(alphabet, repeat=plen):
                jobs.append((alphabet, L, prefix, n_cells, taus))
    results = pmap(_exh_chunk, jobs)
    n_exh = sum(r.evaluations for r in results)
    results += pmap(_hyp_shard, [(s, n_hyp // shards) for s in range(shards)])
    res = merge_results(results)
    # smallest failing case first
    res.violations.sort(key=lambda v: (len(v["case"]["traj"]), str(v["case"])))
    rule = (f"exhaustive: every trajectory of length 0..{max_len} over {len(alphabet) - 1} cells + NaN, tau in {list(taus)}, "
            f"both window modes, {n_cells} cells (one never visited), tau passed as int/np.int64/float/str; plus Hypothesis "
            f"trajectories up to length 300, <=15 cells, tau<=40, NaN runs, a few trajectories of 9 999 .. 31 013 frames, and sparse comparisons for 65 535 .. 3 000 000 cells with a few visited cells at both ends of the index range. Non-trivial = at least one counted window and "
            f"(a NaN frame or a revisited cell); distinct = distinct (trajectory, tau, mode, cells).")
    return res, rule, {"exhaustive": False, "extra": {"exhaustive_part_evaluations": n_exh,
                                                      "exhaustive_part": "the short-trajectory enumeration was completed"},
                       "assumptions": ["cell indices in the trajectory are < total_num_cells (callers guarantee it)"]}
