"""
C17  Grid names normalise to one valid (algorithm, N) or are rejected with ValueError.

Exhaustive enumeration of all names of 1..4 tokens over a token alphabet (algorithm names of both roles, zero names,
integers of every kind, none/None, junk) for both roles; plus Hypothesis names from arbitrary text tokens.
Oracle: validity predicate of the statement (not one expected answer), fixed point of re-parsing, factory point count.
"""
import itertools

from vlib.core import Result, pmap, merge_results, run_hypothesis, quiet

ALGS = {"o": ("ico", "cube3D", "randomS"), "b": ("cube4D", "randomQ", "fulldiv")}
ZERO = {"o": "zero3D", "b": "zero4D"}
DEFAULT = {"o": "ico", "b": "cube4D"}
ALL_ALG_TOKENS = set(ALGS["o"]) | set(ALGS["b"]) | set(ZERO.values())
FULLDIV_SIZES = (8, 40, 272, 2080)

TOKENS_QUICK = ["ico", "cube3D", "randomS", "cube4D", "randomQ", "fulldiv", "zero3D", "zero4D", "zero", "0", "1", "2",
                "17", "40", "007", "-3", "none", "None", "junk", "", "zerox", "1.5", "ICO", "d", "x"]
TOKENS_THOROUGH = TOKENS_QUICK + ["8", "12", "٣", "²", "Zero", " 5", "1e2", "D", "dd", "q"]


def has_dim_tag(name):
    return any(len(f) == 2 and f[-1] == "d" and f[0].isnumeric() for f in name.split("_"))


def parse(name, role):
    from molgri.naming import GridNameParser
    try:
        with quiet():
            p = GridNameParser(name, role)
            return ("ok", p.get_standard_grid_name(), p.get_alg(), p.get_N())
    except ValueError:
        return ("ValueError",)
    except Exception as e:  # anything else is an internal error
        return ("error", f"{type(e).__name__}: {e}")


def judge(name, role):
    """Returns (messages, outcome)."""
    out = parse(name, role)
    if out[0] == "ValueError":
        return [], out
    if out[0] == "error":
        return [f"{name!r} ({role}): {out[1]} instead of ValueError or a standard name"], out
    _, std, alg, N = out
    msgs = []
    if not isinstance(N, int) or isinstance(N, bool) or N < 1:
        msgs.append(f"{name!r} ({role}) -> N={N!r}")
        return msgs, out
    if alg not in ALGS[role] + (ZERO[role],):
        msgs.append(f"{name!r} ({role}) -> algorithm {alg!r} not valid for this role")
    if std != f"{alg}_{N}":
        msgs.append(f"{name!r} ({role}) -> standard name {std!r} is not {alg}_{N}")
    if (N == 1) != (alg == ZERO[role]):
        msgs.append(f"{name!r} ({role}) -> {std}: N=1 and the zero algorithm must go together")
    toks = name.split("_")
    numbers = [t for t in toks if t.isnumeric()]
    algs = [t for t in toks if t in ALL_ALG_TOKENS]
    if len(numbers) > 1 or len(algs) > 1:
        msgs.append(f"{name!r} ({role}) has {len(numbers)} numbers / {len(algs)} algorithm tokens but was accepted as {std}")
    if len(toks) == 1 and toks[0].isnumeric() and len(numbers) == 1:
        try:
            val = int(toks[0])
        except ValueError:
            val = None
        if val is not None and val > 1 and (alg != DEFAULT[role] or N != val):
            msgs.append(f"bare number {name!r} ({role}) -> {std}, expected {DEFAULT[role]}_{val}")
        if val == 1 and alg != ZERO[role]:
            msgs.append(f"bare number 1 ({role}) -> {std}")
    again = parse(std, role)
    if again[0] != "ok" or again[1] != std:
        msgs.append(f"{name!r} ({role}) -> {std}, but re-parsing {std!r} gives {again}")
    return msgs, out


def factory_count(std, role):
    """Construct the grid named std and count its points."""
    from molgri.space.rotobj import SphereGrid3DFactory, SphereGrid4DFactory
    alg, N = std.rsplit("_", 1)
    N = int(N)
    try:
        with quiet():
            if role == "o":
                g = SphereGrid3DFactory.create(alg_name=alg, N=N)
            else:
                g = SphereGrid4DFactory.create(alg_name=alg, N=N)
            arr = g.get_grid_as_array()
        n = len(arr)
    except ValueError as e:
        if alg == "fulldiv" and N not in FULLDIV_SIZES:
            return []
        return [f"factory rejected {std}: {e}"]
    except Exception as e:
        return [f"factory for {std}: {type(e).__name__}: {e}"]
    if n != N:
        return [f"factory for {std} yields {n} points"]
    if alg == "fulldiv" and N not in FULLDIV_SIZES:
        return [f"fulldiv accepted undocumented size {N}"]
    return []


def _chunk(arg):
    tokens, first, length = arg
    res = Result()
    stds = set()
    for rest in itertools.product(tokens, repeat=length - 1):
        name = "_".join((first,) + rest)
        if has_dim_tag(name):
            res.classes["skipped_dimension_tag"] += 1
            continue
        for role in ("o", "b"):
            msgs, out = judge(name, role)
            accepted = out[0] == "ok"
            res.case(sample={"name": name, "role": role, "outcome": out[1] if accepted else out[0]}
                     if res.evaluations % 4001 == 7 else None,
                     nontrivial=accepted or length > 1, key=[name, role],
                     classes=["accepted" if accepted else "rejected", f"tokens={length}"])
            if accepted:
                stds.add((out[1], role))
            if msgs:
                res.violation({"name": name, "role": role}, "; ".join(msgs))
    res.extra["standard_names"] = sorted(stds)
    return res


def _factory(arg):
    std, role = arg
    res = Result()
    msgs = factory_count(std, role)
    res.case(sample={"factory": std, "role": role}, nontrivial=True, key=["factory", std, role], classes=["factory"])
    if msgs:
        res.violation({"factory": std, "role": role}, "; ".join(msgs))
    return res


def _factory_session(seq):
    """Named grids constructed one after the other in one process, sizes going down and up again: the point count of a
    name does not depend on what was constructed before."""
    res = Result()
    before = []
    for std, role in seq:
        msgs = factory_count(std, role)
        case = {"factory": std, "role": role, "after": [list(x) for x in before]}
        res.case(sample=case, nontrivial=True, key=["factory_session", std, role, len(before)], classes=["factory", "factory_session"])
        if msgs:
            res.violation(case, "; ".join(msgs) + f" (constructed after {before})")
        before.append((std, role))
    return res


def _factory_chunk(items):
    return merge_results([_factory(it) for it in items])


def _hyp_shard(arg):
    shard, n = arg
    from hypothesis import given, strategies as st
    tok = st.one_of(st.sampled_from(TOKENS_THOROUGH),
                    st.text(alphabet=st.characters(blacklist_characters="_", blacklist_categories=("Cs",)), max_size=6),
                    st.integers(-5, 3000).map(str))

    def builder(res, fail):
        @given(st.lists(tok, min_size=1, max_size=5), st.sampled_from(["o", "b"]))
        def test(toks, role):
            name = "_".join(toks)
            if has_dim_tag(name):
                return
            msgs, out = judge(name, role)
            res.case(sample={"name": name, "role": role, "outcome": out[1] if out[0] == "ok" else out[0]},
                     nontrivial=True, key=[name, role], classes=["random_text", "accepted" if out[0] == "ok" else "rejected"])
            if msgs:
                fail({"name": name, "role": role}, "; ".join(msgs))
        return test
    res = Result()
    run_hypothesis(builder, res, shard, n)
    return res


def replay(case):
    if "factory" in case:
        for std, role in case.get("after", []):      # reproduce the process history
            factory_count(std, role)
        return factory_count(case["factory"], case["role"])
    return judge(case["name"], case["role"])[0]


# ---- atheris adapters (thorough tier) ---------------------------------------------------------------------------------

def fuzz_decode(fdp):
    n = fdp.ConsumeIntInRange(1, 5)
    toks = []
    for _ in range(n):
        k = fdp.ConsumeIntInRange(0, 3)
        if k <= 1:
            toks.append(TOKENS_THOROUGH[fdp.ConsumeIntInRange(0, len(TOKENS_THOROUGH) - 1)])
        elif k == 2:
            toks.append(str(fdp.ConsumeIntInRange(-5, 3000)))
        else:
            toks.append(fdp.ConsumeUnicodeNoSurrogates(6).replace("_", ""))
    name = "_".join(toks)
    if has_dim_tag(name):
        return None
    return {"name": name, "role": "ob"[fdp.ConsumeBool()]}


def fuzz_judge(case):
    return judge(case["name"], case["role"])[0]


def fuzz_nontrivial(case):
    return "_" in case["name"]


def run(tier):
    tokens = TOKENS_QUICK if tier == "quick" else TOKENS_THOROUGH
    max_len = 4
    jobs = [(tokens, first, L) for L in range(1, max_len + 1) for first in tokens]
    results = pmap(_chunk, jobs)
    n_exh = sum(r.evaluations for r in results)
    stds = set()
    for r in results:
        stds |= set(map(tuple, r.extra.pop("standard_names", [])))
    limit = 50 if tier == "quick" else 300
    todo = sorted((s, role) for s, role in stds if int(s.rsplit("_", 1)[1]) <= limit or s.startswith("fulldiv"))
    todo = [(s, r) for s, r in todo if not (s.startswith("fulldiv") and int(s.rsplit("_", 1)[1]) > 300)]
    # fulldiv documents four sizes: every other N must be refused with ValueError by the factory, not only the few that
    # the token alphabet happens to name
    sweep_to = 700 if tier == "quick" else 3000
    sweep = [(f"fulldiv_{n}", "b") for n in range(2, sweep_to + 1) if n not in FULLDIV_SIZES and (f"fulldiv_{n}", "b") not in todo]
    todo += sweep
    results += pmap(_factory_chunk, [todo[i::64] for i in range(64)])
    sessions = [[("fulldiv_40", "b"), ("fulldiv_8", "b"), ("fulldiv_40", "b")], [("fulldiv_8", "b"), ("fulldiv_40", "b"), ("fulldiv_8", "b")],
                [("cube4D_30", "b"), ("cube4D_7", "b"), ("cube4D_30", "b")], [("randomQ_30", "b"), ("randomQ_6", "b"), ("randomQ_30", "b")],
                [("ico_42", "o"), ("ico_5", "o"), ("ico_43", "o"), ("ico_5", "o")], [("cube3D_26", "o"), ("cube3D_4", "o"), ("cube3D_27", "o")],
                [("randomS_30", "o"), ("randomS_4", "o"), ("randomS_30", "o")]]
    results += pmap(_factory_session, sessions)
    results += pmap(_hyp_shard, [(s, (2000 if tier == "quick" else 40000) // 16) for s in range(16)])
    res = merge_results(results)
    if tier == "thorough":
        from vlib.core import run_fuzz_campaign
        res.merge(run_fuzz_campaign("C17", runs=800000, shards=16))
    res.violations.sort(key=lambda v: len(str(v["case"])))
    rule = (f"exhaustive: all names of 1..{max_len} tokens over the {len(tokens)}-token alphabet {tokens} for both roles "
            f"(names with a dimension tag skipped as unspecified); every distinct accepted standard name with N<={limit} "
            f"(and every fulldiv name, and fulldiv with every N in 2..{sweep_to}) is constructed by the factory; names are also constructed in sessions (one process, sizes going down and up again: fulldiv 40-8-40, 8-40-8, ...); plus Hypothesis names from arbitrary text tokens. "
            f"Non-trivial = multi-token or accepted names; distinct = distinct (name, role).")
    return res, rule, {"exhaustive": True,
                       "extra": {"exhaustive_part_evaluations": n_exh, "factory_constructions": len(todo),
                                 "exhaustive_part": "token-alphabet enumeration completed; the random-text part is sampled"},
                       "assumptions": ["names carrying a dimension tag such as 3d are unspecified and skipped"]}
