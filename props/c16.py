"""
C16  Radial grids parse to sorted Angstrom radii with interleaved shell boundaries.

Generator: Hypothesis text generation of every accepted syntax (number, list / tuple / bare comma list in any order,
linspace(start, stop[, num]), range/arange with 1..3 arguments) with random whitespace and number spellings.
Oracle: exact rational arithmetic (fractions.Fraction) for the intended values, the stated increment and boundary
rules, and the documented identifier function of the array bytes.
"""
import hashlib
from fractions import Fraction

import numpy as np

from vlib.core import Result, pmap, merge_results, run_hypothesis, quiet


def frac_of(token: str) -> Fraction:
    return Fraction(token.strip().lstrip("+"))


def intended(case):
    """Exact intended radii in nm (list of Fractions, ascending) or a pair of acceptable lists for range boundary cases."""
    kind = case["kind"]
    if kind in ("list", "tuple", "bare", "number"):
        return [sorted(frac_of(t) for t in case["tokens"])]
    if kind == "linspace":
        a, b = frac_of(case["args"][0]), frac_of(case["args"][1])
        n = int(case["args"][2]) if len(case["args"]) > 2 else 50
        return [[a + (b - a) * k / (n - 1) for k in range(n)]]
    if kind == "range":
        args = [frac_of(t) for t in case["args"]]
        if len(args) == 1:
            start, stop, step = Fraction(0), args[0], Fraction(1)
        elif len(args) == 2:
            start, stop, step = args[0], args[1], Fraction(1)
        else:
            start, stop, step = args
        q = (stop - start) / step
        L = int(-((-q.numerator) // q.denominator))  # ceil
        out = [[start + k * step for k in range(L)]]
        exact_args = all(Fraction(float(a)) == a for a in args)
        if q.denominator == 1 and not exact_args:
            # the exact quotient is an integer but an argument is not representable in binary: the floating-point
            # quotient may fall on either side, both lengths are the "mathematically intended" grid up to rounding
            out.append([start + k * step for k in range(L + 1)])
        return out
    raise ValueError(kind)


def render(case):
    return case["text"]


def judge(case):
    from molgri.space.translations import TranslationParser, get_between_radii, get_increments
    text = case["text"]
    msgs = []
    try:
        with quiet():
            tp = TranslationParser(text)
            got = np.array(tp.get_trans_grid(), dtype=float)
    except (AssertionError, ValueError) as e:
        if case.get("has_negative"):
            return []
        return [f"valid input {text!r} rejected: {type(e).__name__}: {e}"]
    except Exception as e:
        return [f"{text!r}: exception {type(e).__name__}: {e}"]
    if case.get("has_negative"):
        return [f"{text!r} contains a negative distance but was accepted: {got.tolist()}"]
    options = intended(case)
    ok = False
    for want in options:
        w = np.array([float(x * 10) for x in want])
        if len(w) == len(got) and np.allclose(got, w, rtol=1e-12, atol=1e-12):
            ok = True
            break
    if not ok:
        want = options[0]
        return [f"{text!r} -> {got.tolist()[:8]} (len {len(got)}), intended {[float(x * 10) for x in want][:8]} (len {len(want)})"]
    if got.ndim != 1:
        msgs.append(f"grid has shape {got.shape}")
    if np.any(np.diff(got) < 0):
        msgs.append(f"{text!r}: radii not ascending: {got.tolist()}")
    if tp.get_N_trans() != len(got):
        msgs.append("get_N_trans disagrees with the grid length")
    # identifier: documented function of the array bytes only
    doc_hash = int(hashlib.md5(np.ascontiguousarray(got)).hexdigest()[:8], 16)
    if tp.grid_hash != doc_hash or tp.get_name() != f"{doc_hash}":
        msgs.append(f"identifier {tp.grid_hash} is not the documented function of the array ({doc_hash})")
    alt = case.get("alt_text")
    if alt:
        with quiet():
            tp2 = TranslationParser(alt)
        g2 = np.array(tp2.get_trans_grid())
        if g2.shape == got.shape and np.array_equal(g2, got):
            if tp2.grid_hash != tp.grid_hash:
                msgs.append(f"{text!r} and {alt!r} give the same array but identifiers {tp.grid_hash} / {tp2.grid_hash}")
        elif case["kind"] in ("list", "tuple", "bare"):
            msgs.append(f"{text!r} and its reordering {alt!r} give different arrays")
    # increments and shell boundaries (stated for positive, distinct radii)
    if len(got) >= 1 and got[0] > 0 and np.all(np.diff(got) > 0):
        try:
            with quiet():
                inc = np.array(tp.get_increments())
                inc2 = np.array(get_increments(got))
                R = np.array(get_between_radii(got))
                R0 = np.array(get_between_radii(got, include_zero=True))
                sifr = tp.sum_increments_from_first_radius()
        except Exception as e:
            return msgs + [f"{text!r}: increments/boundaries raised {type(e).__name__}: {e}"]
        want_inc = np.concatenate([[got[0]], np.diff(got)])
        if not (np.array_equal(inc, want_inc) and np.array_equal(inc2, want_inc)):
            msgs.append(f"{text!r}: increments {inc.tolist()} != first radius + differences {want_inc.tolist()}")
        if abs(sifr - (got[-1] - got[0])) > 1e-9 * max(1.0, got[-1]):
            msgs.append("sum of increments from the first radius != last - first radius")
        T = len(got)
        if T == 1:
            want_R = np.array([2 * got[0]])
        else:
            want_R = np.empty(T)
            want_R[:-1] = (got[:-1] + got[1:]) / 2
            want_R[-1] = got[-1] + (got[-1] - got[-2]) / 2
        if R.shape != want_R.shape or not np.allclose(R, want_R, rtol=1e-12, atol=0):
            msgs.append(f"{text!r}: shell boundaries {R.tolist()} != rule {want_R.tolist()}")
        else:
            if not np.all(R > got) or (T > 1 and not np.all(R[:-1] < got[1:])):
                msgs.append(f"{text!r}: boundaries do not interleave the radii")
        if not (len(R0) == T + 1 and R0[0] == 0 and np.array_equal(R0[1:], R)):
            msgs.append("include_zero variant is not [0] + boundaries")
    return msgs


def classes_of(case):
    out = ["kind=" + case["kind"]]
    if case.get("has_negative"):
        out.append("negative_rejected")
    if case["kind"] == "range":
        out.append(f"range_args={len(case['args'])}")
        if not case.get("has_negative") and len(intended(case)) > 1:
            out.append("range_fp_boundary_two_lengths_accepted")
    if case["kind"] == "linspace":
        out.append("linspace_default_num" if len(case["args"]) == 2 else "linspace_num")
    if case["kind"] in ("list", "tuple", "bare") and case["tokens"] != sorted(case["tokens"], key=frac_of):
        out.append("unsorted_input")
    if any(frac_of(t) == 0 for t in case.get("tokens", [])):
        out.append("contains_zero_radius")
    return out


def nontrivial(case):
    if case.get("has_negative"):
        return False
    n = len(intended(case)[0])
    return n >= 3 or (case["kind"] in ("list", "tuple", "bare") and n >= 2)


def _strategies():
    from hypothesis import strategies as st

    ws = st.sampled_from(["", "", " ", "  ", "\t"])

    @st.composite
    def number(draw, allow_zero=True, maxv=99):
        mant = draw(st.integers(0 if allow_zero else 1, 999999))
        # up to 6 significant digits, value in [0, maxv]
        digits = draw(st.integers(0, 5))
        frac = Fraction(mant, 10 ** digits)
        while frac > maxv:
            frac /= 10
            digits += 1
        style = draw(st.sampled_from(["plain", "plain", "plain", "sci", "plus", "int"]))
        if frac.denominator == 1 and style in ("int", "plain"):
            txt = str(frac.numerator) if style == "int" else f"{frac.numerator}.0"
        elif style == "sci":
            from decimal import Decimal
            txt = f"{Decimal(frac.numerator) / Decimal(frac.denominator):E}"
        else:
            from decimal import Decimal
            txt = format(Decimal(frac.numerator) / Decimal(frac.denominator), "f")
            if txt.startswith("0.") and draw(st.booleans()):
                txt = txt[1:]
            if style == "plus":
                txt = "+" + txt
        assert Fraction(txt.lstrip("+")) == frac, (txt, frac)
        return txt

    def join(draw, toks):
        return ",".join(draw(ws) + t + draw(ws) for t in toks)

    @st.composite
    def seq_case(draw):
        n = draw(st.integers(1, 8))
        toks = draw(st.lists(number(), min_size=n, max_size=n, unique_by=frac_of))
        kind = draw(st.sampled_from(["list", "list", "tuple", "bare", "number"]))
        if kind == "number":
            toks = toks[:1]
        if len(toks) == 1 and kind == "bare":
            kind = "number"
        neg = draw(st.integers(0, 9)) == 0
        toks_txt = list(toks)
        case = {"kind": kind, "tokens": toks}
        if neg:
            i = draw(st.integers(0, len(toks) - 1))
            t = toks[i].lstrip("+")
            if frac_of(t) == 0:
                t = "1.5"
            if draw(st.booleans()):
                # a negative distance of any magnitude is negative: down to the smallest positive double
                k = draw(st.integers(1, 323))
                t = draw(st.sampled_from([f"1e-{k}", f"{draw(st.integers(1, 9))}.{draw(st.integers(0, 99))}e-{k}", "5e-324",
                                          "0." + "0" * min(k, 40) + "1"]))
            toks_txt[i] = "-" + t
            case["has_negative"] = True
        body = join(draw, toks_txt)

        def wrap(kind, body, one):
            if kind == "list":
                return "[" + body + "]"
            if kind == "tuple":
                return "(" + body + ("," if one else "") + ")"
            return body
        case["text"] = draw(ws) + wrap(kind, body, len(toks) == 1) + draw(ws)
        if not neg and kind != "number":
            perm = draw(st.permutations(toks))
            case["alt_text"] = wrap(draw(st.sampled_from(["list", "tuple"])), join(draw, list(perm)), len(toks) == 1)
        if kind == "number":
            case["text"] = draw(ws) + toks_txt[0] + draw(ws)
        return case

    @st.composite
    def linspace_case(draw):
        a = draw(number())
        span = draw(number(allow_zero=False, maxv=50))
        b_frac = frac_of(a) + frac_of(span)
        from decimal import Decimal
        b = format(Decimal(b_frac.numerator) / Decimal(b_frac.denominator), "f")
        if Fraction(b) != b_frac:
            b = f"{b_frac.numerator}/{b_frac.denominator}"  # never happens for decimal inputs
        args = [a, b]
        if draw(st.booleans()):
            args.append(str(draw(st.integers(2, 60))))
        text = draw(st.sampled_from(["linspace", "np.linspace", "linspace "])) + "(" + join(draw, args) + ")"
        return {"kind": "linspace", "args": args, "text": text}

    @st.composite
    def range_case(draw):
        nargs = draw(st.integers(1, 3))
        from decimal import Decimal

        def fmt(fr):
            return format(Decimal(fr.numerator) / Decimal(fr.denominator), "f")
        if nargs == 1:
            stop = draw(st.integers(1, 30))
            args = [str(stop) if draw(st.booleans()) else f"{stop}.5"]
        else:
            a = draw(number())
            if nargs == 2:
                span = Fraction(draw(st.integers(1, 400)), 10)
                args = [a, fmt(frac_of(a) + span)]
            else:
                step = frac_of(draw(number(allow_zero=False, maxv=9)))
                if step < Fraction(1, 100):
                    step = Fraction(1, 100)
                count = Fraction(draw(st.integers(1, 400)), draw(st.sampled_from([1, 1, 2, 3, 10])))
                span = step * count
                if span > 200 * step:
                    span = 200 * step
                args = [a, fmt(frac_of(a) + span), fmt(step)]
                if Fraction(args[1]) != frac_of(a) + span:  # non-terminating decimal: round the stop
                    args[1] = fmt(Fraction(round((frac_of(a) + span) * 1000), 1000))
                    if Fraction(args[1]) <= frac_of(a):
                        args[1] = fmt(frac_of(a) + step)
        text = draw(st.sampled_from(["range", "arange", "np.arange"])) + "(" + join(draw, args) + ")"
        return {"kind": "range", "args": args, "text": text}

    @st.composite
    def negative_generated_case(draw):
        # linspace / range forms that contain a negative distance (descending through zero, or starting below zero):
        # whatever the syntax, negative distances must be rejected
        from decimal import Decimal

        def fmt(fr):
            return format(Decimal(fr.numerator) / Decimal(fr.denominator), "f")
        hi = Fraction(draw(st.integers(0, 3000)), 1000)
        lo = -Fraction(draw(st.integers(1, 3000)), 1000)
        descending = draw(st.booleans())
        if not descending and draw(st.booleans()):
            lo = -Fraction(draw(st.integers(1, 9)), 10 ** draw(st.integers(4, 40)))   # starting a hair below zero
        if draw(st.booleans()):
            n = draw(st.integers(2, 12))
            args = [fmt(hi), fmt(lo), str(n)] if descending else [fmt(lo), fmt(hi if hi > 0 else Fraction(1)), str(n)]
            text = "linspace(" + join(draw, args) + ")"
            kind = "linspace"
        else:
            step = Fraction(draw(st.integers(50, 1000)), 1000)
            if descending:
                lo = lo - step  # the stop is exclusive: make sure at least one generated point lies below zero
            args = [fmt(hi), fmt(lo), fmt(-step)] if descending else [fmt(lo), fmt(hi + 1), fmt(step)]
            text = draw(st.sampled_from(["range", "arange"])) + "(" + join(draw, args) + ")"
            kind = "range"
        return {"kind": kind, "args": args, "text": text, "has_negative": True}

    return st.one_of(seq_case(), seq_case(), linspace_case(), range_case(), negative_generated_case())


def _hyp_shard(arg):
    shard, n_examples = arg
    from hypothesis import given

    def builder(res, fail):
        @given(_strategies())
        def test(case):
            msgs = judge(case)
            res.case(sample={k: case[k] for k in case if k != "tokens"}, nontrivial=nontrivial(case), key=case["text"],
                     classes=classes_of(case))
            if msgs:
                fail(case, "; ".join(msgs))
        return test

    res = Result()
    run_hypothesis(builder, res, shard, n_examples)
    return res


def replay(case):
    return judge(case)


# ---- atheris adapters (thorough tier): bytes -> the same case grammar, oracle inside the target --------------------------

def _fuzz_number(fdp, allow_zero=True):
    mant = fdp.ConsumeIntInRange(0 if allow_zero else 1, 999999)
    digits = fdp.ConsumeIntInRange(0, 5)
    frac = Fraction(mant, 10 ** digits)
    while frac > 99:
        frac /= 10
    from decimal import Decimal
    txt = format(Decimal(frac.numerator) / Decimal(frac.denominator), "f")
    style = fdp.ConsumeIntInRange(0, 3)
    if style == 1:
        txt = f"{Decimal(frac.numerator) / Decimal(frac.denominator):E}"
    elif style == 2:
        txt = "+" + txt
    elif style == 3 and txt.startswith("0."):
        txt = txt[1:]
    return txt


def fuzz_decode(fdp):
    ws = ["", " ", "  ", "\t"]
    kind = fdp.ConsumeIntInRange(0, 5)
    sep = lambda: ws[fdp.ConsumeIntInRange(0, 3)] + "," + ws[fdp.ConsumeIntInRange(0, 3)]
    if kind <= 2:
        n = fdp.ConsumeIntInRange(1, 8)
        toks, seen = [], set()
        for _ in range(n):
            t = _fuzz_number(fdp)
            if frac_of(t) not in seen:
                seen.add(frac_of(t))
                toks.append(t)
        k = ["list", "tuple", "bare"][kind]
        if len(toks) == 1 and k == "bare":
            k = "number"
        case = {"kind": k, "tokens": toks}
        shown = list(toks)
        if fdp.ConsumeIntInRange(0, 9) == 0:
            i = fdp.ConsumeIntInRange(0, len(toks) - 1)
            t = toks[i].lstrip("+")
            shown[i] = "-" + (t if frac_of(t) != 0 else "1.5")
            case["has_negative"] = True
        body = sep().join(shown)
        case["text"] = {"list": "[" + body + "]", "tuple": "(" + body + ("," if len(toks) == 1 else "") + ")", "bare": body,
                        "number": shown[0]}[k]
        return case
    if kind == 3:
        a = _fuzz_number(fdp)
        span = Fraction(fdp.ConsumeIntInRange(1, 50000), 1000)
        from decimal import Decimal
        bf = frac_of(a) + span
        b = format(Decimal(bf.numerator) / Decimal(bf.denominator), "f")
        args = [a, b] + ([str(fdp.ConsumeIntInRange(2, 60))] if fdp.ConsumeBool() else [])
        return {"kind": "linspace", "args": args, "text": "linspace(" + sep().join(args) + ")"}
    from decimal import Decimal
    fmt = lambda fr: format(Decimal(fr.numerator) / Decimal(fr.denominator), "f")
    a = _fuzz_number(fdp)
    step = max(Fraction(fdp.ConsumeIntInRange(1, 9000), 1000), Fraction(1, 100))
    count = Fraction(fdp.ConsumeIntInRange(1, 200), [1, 2, 3, 10][fdp.ConsumeIntInRange(0, 3)])
    stop = frac_of(a) + step * count
    args = [a, fmt(Fraction(round(stop * 1000), 1000)), fmt(step)]
    if Fraction(args[1]) <= frac_of(a):
        args[1] = fmt(frac_of(a) + step)
    return {"kind": "range", "args": args, "text": ["range", "arange"][fdp.ConsumeBool()] + "(" + sep().join(args) + ")"}


def fuzz_judge(case):
    return judge(case)


def fuzz_nontrivial(case):
    return nontrivial(case)


def run(tier):
    total = 16000 if tier == "quick" else 400000
    res = merge_results(pmap(_hyp_shard, [(s, total // 16) for s in range(16)]))
    if tier == "thorough":
        from vlib.core import run_fuzz_campaign
        res.merge(run_fuzz_campaign("C16", runs=400000, shards=16))
    rule = ("Hypothesis text generation: non-negative decimals with <=6 significant digits in plain/scientific/'+'/leading-dot "
            "spellings; lists, tuples, bare comma lists (any order, 1..8 distinct members), single numbers, "
            "linspace(a,b[,n]) with a<b and n in 2..60, range/arange/np.arange with 1..3 arguments (start<stop, step>0, "
            "<=400 points), random whitespace; one list input in ten carries a negative member (magnitudes from 3 down to 5e-324), and linspace/range forms that run below zero (descending through zero or starting negative) are generated as well: all must be rejected. "
            "Non-trivial = accepted grid with >=3 radii (>=2 for explicit lists); distinct = distinct input text.")
    return res, rule, {"assumptions": [
        "not generated: negative zero, descending linspace/range, duplicate radii (outside the documented usage)",
        "a grid containing radius 0 is parsed and identified, but increments/boundaries are only judged for r_1 > 0 "
        "(the library rejects a zero first increment by assertion; the property states them for positive radii)",
        "range whose exact quotient is an integer while an argument is not binary-representable: lengths L and L+1 accepted"]}
