"""
C03  Direction-grid cells are the true Voronoi tessellation of the sphere.

Generator: (algorithm, N) enumerated - every small N, level boundaries and their neighbours, seeded larger N.
Oracle: vlib.geom.s2_voronoi - every pair decided from the definition by clipping the bisector great circle with all
other points (no scipy geometry); adjacency, arc length, centre distance, area, symmetry, common pattern.
"""
import numpy as np

from vlib.core import Result, pmap, merge_results, SEED, quiet
from vlib import geom
from vlib.grids import scribble, fresh_sphere_grid, dense

ADJ_YES, ADJ_NO = 1e-7, 1e-12
LEVELS = {"ico": (12, 42, 162, 642), "cube3D": (8, 26, 98, 386)}


def self_test():
    return geom.s2_self_test()


def judge(case):
    alg, N = case["alg"], case["N"]
    info = {"undecided": 0, "degenerate_vertex": False}
    try:
        g = fresh_sphere_grid(alg, N)
        with quiet():
            P = np.asarray(g.get_grid_as_array())
            P_first = P.copy()
            adj = g.get_voronoi_adjacency()
            bor = g.get_cell_borders()
            dis = g.get_center_distances()
            areas_raw = g.get_voronoi_volumes()
            areas = np.array(areas_raw, dtype=float)
    except Exception as e:
        return [f"{alg}_{N}: getter raised {type(e).__name__}: {e}"], info
    msgs = []
    A, B, Dm = dense(adj).astype(float), dense(bor).astype(float), dense(dis).astype(float)
    adj_rc = (adj.tocoo().row.copy(), adj.tocoo().col.copy())
    if A.shape != (N, N) or B.shape != (N, N) or Dm.shape != (N, N) or areas.shape != (N,):
        return [f"{alg}_{N}: shapes {A.shape} {B.shape} {Dm.shape} {areas.shape}"], info
    orc = geom.s2_voronoi(P)
    L = orc["length"]
    L = np.minimum(L, L.T)  # both directions are computed independently; they agree to 1e-13
    yes, no = L > ADJ_YES, L < ADJ_NO
    grey = ~(yes | no)
    np.fill_diagonal(grey, False)
    info["undecided"] = int(grey.sum() // 2)
    # degenerate vertices: >= 4 cells meeting in one point
    ends = orc["ends"][yes].reshape(-1, 3)
    if len(ends):
        uniq, counts = np.unique(np.round(ends, 8), axis=0, return_counts=True)
        info["degenerate_vertex"] = bool((counts >= 8).any())  # every incident arc contributes the vertex twice (i,j and j,i)
    lib_adj = A != 0
    wrong = (lib_adj != yes) & ~grey
    np.fill_diagonal(wrong, False)
    if wrong.any():
        i, j = np.argwhere(wrong)[0]
        msgs.append(f"{alg}_{N}: pair ({i},{j}) adjacency={bool(lib_adj[i, j])} but the regions share an arc of length {L[i, j]:.3e}")
    if np.diag(A).any() or np.diag(B).any() or np.diag(Dm).any():
        msgs.append(f"{alg}_{N}: non-empty diagonal")
    for name, M in (("adjacency", A), ("borders", B), ("distances", Dm)):
        if not np.allclose(M, M.T, rtol=1e-9, atol=0):
            msgs.append(f"{alg}_{N}: {name} not symmetric")
    if not (np.array_equal(B != 0, lib_adj) and np.array_equal(Dm != 0, lib_adj)):
        msgs.append(f"{alg}_{N}: the three matrices do not share one pattern")
    for name, sp in (("adjacency", adj), ("borders", bor), ("distances", dis)):
        c = sp.tocoo()
        if not (np.array_equal(c.row, adj_rc[0]) and np.array_equal(c.col, adj_rc[1])):
            msgs.append(f"{alg}_{N}: {name} stored entry order differs from the adjacency")
    both = lib_adj & yes
    if both.any():
        dev = np.abs(B - L)[both]
        if dev.max() > 2e-8:
            i, j = np.argwhere(both & (np.abs(B - L) > 2e-8))[0]
            msgs.append(f"{alg}_{N}: border ({i},{j}) = {B[i, j]!r}, true arc length {L[i, j]!r}")
        ang = np.arccos(np.clip(P @ P.T, -1, 1))
        devd = np.abs(Dm - ang)[both]
        if devd.max() > 1e-12:
            i, j = np.argwhere(both & (np.abs(Dm - ang) > 1e-12))[0]
            msgs.append(f"{alg}_{N}: distance ({i},{j}) = {Dm[i, j]!r}, great-circle angle {ang[i, j]!r}")
    if (areas <= 0).any():
        msgs.append(f"{alg}_{N}: non-positive area")
    if abs(areas.sum() - 4 * np.pi) > 1e-9:
        msgs.append(f"{alg}_{N}: areas sum to {areas.sum()!r}")
    rel = np.abs(areas - orc["area"]) / orc["area"]
    if rel.max() > 1e-9:
        i = int(np.argmax(rel))
        msgs.append(f"{alg}_{N}: area of cell {i} = {areas[i]!r}, true region area {orc['area'][i]!r}")
    # the same object asked again after the other getters (incl. the approximate area estimate) must still report the
    # true tessellation: the statement is about the grid, not about the first call
    try:
        with quiet():
            # what a caller does with results it was handed: converts units / masks them in place
            for handed in (adj, bor, dis, areas_raw):
                scribble(handed)
            try:   # history only: the hull-based estimate is not judged here (it cannot be built for some large grids)
                g.get_spherical_voronoi().get_voronoi_volumes(approx=True)
            except Exception:
                info["approx_estimate_failed"] = True
            dis1, bor1, adj1 = g.get_center_distances(), g.get_cell_borders(), g.get_voronoi_adjacency()
            areas_again = np.asarray(g.get_voronoi_volumes())
        if not (np.array_equal(dense(bor1).astype(float), B) and np.array_equal(dense(adj1).astype(float), A)
                and np.array_equal(dense(dis1).astype(float), Dm)):
            msgs.append(f"{alg}_{N}: after the caller edited the matrices it was handed in place, the same grid reports other "
                        f"adjacency / borders / distances")
        with quiet():
            # and a second object of the same grid on which the getters are called in another order, estimate first
            g2 = fresh_sphere_grid(alg, N)
            try:
                g2.get_spherical_voronoi().get_voronoi_volumes(approx=True)
            except Exception:
                info["approx_estimate_failed"] = True
            dis2, bor2, adj2 = g2.get_center_distances(), g2.get_cell_borders(), g2.get_voronoi_adjacency()
            areas2 = np.asarray(g2.get_voronoi_volumes())
        if not np.array_equal(areas_again, areas):
            msgs.append(f"{alg}_{N}: the exact areas change when asked again after the approximate estimate")
        if not (np.array_equal(areas2, areas) and np.array_equal(dense(bor2).astype(float), B) and np.array_equal(dense(adj2).astype(float), A)
                and np.array_equal(dense(dis2).astype(float), Dm)):
            dev = float(np.abs(areas2 - areas).max()) if areas2.shape == areas.shape else float("nan")
            msgs.append(f"{alg}_{N}: asking the same grid again (after the approximate estimate and the other getters) changes "
                        f"the reported geometry (areas differ by up to {dev:.3g})")
    except Exception as e:
        msgs.append(f"{alg}_{N}: second round of getters raised {type(e).__name__}: {e}")
    # a grid is a function of its name: whatever the caller did to the objects it holds (here: it overwrites the point
    # arrays of the two grids above, which are its to ruin), a newly requested grid of the same name is the pristine grid
    try:
        with quiet():
            for old in (g, g2):
                scribble(old.get_grid_as_array())
            g3 = fresh_sphere_grid(alg, N)
            P3 = np.asarray(g3.get_grid_as_array())
            areas3 = np.asarray(g3.get_voronoi_volumes())
            bor3 = dense(g3.get_cell_borders()).astype(float)
        if P3.shape != P_first.shape or not np.array_equal(P3, P_first) or not np.array_equal(areas3, areas) or not np.array_equal(bor3, B):
            msgs.append(f"{alg}_{N}: a newly requested grid differs from the first one after the caller overwrote the point "
                        f"arrays of earlier grid objects of the same name")
    except Exception as e:
        msgs.append(f"{alg}_{N}: new grid after the caller edited earlier ones: {type(e).__name__}: {e}")
    return msgs, info


def _one(case):
    res = Result()
    msgs, info = judge(case)
    alg, N = case["alg"], case["N"]
    kind = "random" if alg == "randomS" else ("complete_level" if N in LEVELS[alg] else "partial_level")
    classes = [f"alg={alg}", kind]
    if info["degenerate_vertex"]:
        classes.append("has_degenerate_vertex(>=4 cells)")
    res.undecided += info["undecided"]
    if info.get("approx_estimate_failed"):
        classes.append("history_step_approx_estimate_raised")
    res.case(sample=case, nontrivial=N >= 5, key=case, classes=classes)
    if msgs:
        res.violation(case, "; ".join(msgs[:4]))
    return res


def replay(case):
    return judge(case)[0]


def run(tier):
    rng = np.random.default_rng([SEED, 3])
    cases = []
    for alg in ("ico", "cube3D", "randomS"):
        if tier == "quick":
            ns = set(range(4, 65)) | {97, 98, 99, 100, 161, 162, 163, 385, 386, 387} | {41, 42, 43}
            ns |= set(int(x) for x in rng.integers(65, 400, size=12))
        else:
            ns = set(range(4, 401)) | set(int(x) for x in rng.integers(401, 1000, size=16)) | {641, 642, 643}
        cases += [{"alg": alg, "N": n} for n in sorted(ns)]
    cases.sort(key=lambda c: -c["N"])
    res = merge_results(pmap(_one, cases))
    res.violations.sort(key=lambda v: v["case"]["N"])
    rule = ("enumeration of (algorithm, N) for ico, cube3D, randomS: " + ("every N in 4..64, the level boundaries 41-43, 97-100, "
            "161-163, 385-387 and 12 seeded N in 65..400" if tier == "quick" else "every N in 4..400, 641-643 and 16 seeded N in 401..1000")
            + "; every pair (i,j) of every grid judged. Non-trivial = N>=5; distinct = distinct (algorithm, N). Grey zone: "
              "pairs whose true arc length lies in [1e-12, 1e-7] are counted as undecided and not judged.")
    return res, rule, {"exhaustive": tier == "thorough",
                       "assumptions": ["adjacency asserted only for true arc length > 1e-7 (adjacent) or < 1e-12 (not adjacent)"]}
