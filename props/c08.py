"""
C08  Grids and their geometry are reproducible, prefix-stable and history-independent.

* Hypothesis rule-based state machine: interleavings of grid constructions, getter calls (array, areas/volumes exact and
  approximate, adjacency, borders, distances), reseeding of numpy's global generator and construction of larger grids;
  model = sha256 fingerprints obtained in *fresh spawned interpreters* (other PYTHONHASHSEED, scrambled global RNG, first
  call on a fresh object). Invariant after every step: everything observed so far equals the reference bit for bit.
* Prefix check: grid(N) == grid(N_max)[:N] for a dense set of N (all N in thorough), polytope algorithms.
"""
import json
import os
import subprocess
import sys

import numpy as np

from vlib.core import Result, pmap, merge_results, run_hypothesis, quiet, REPO, SEED, VERIF_DIR, HarnessError
from vlib.grids import scribble
from vlib.hashing import value_hash, GETTERS, call_getter, make_grid

POLY = ("ico", "cube3D", "cube4D")


# get_grid_as_array() of a sphere grid hands out the grid's own array (editing it edits the grid): the caller-edit step
# leaves these alone; every other getter returns an object that belongs to the caller
ALIASED_BY_DESIGN = {"array", "array_upper_view", "array_upper", "array_full"}


def dim_of(alg):
    if alg.startswith("FG|"):
        return "fg"
    return 3 if alg in ("ico", "cube3D", "randomS") else 4


def fresh_reference(spec):
    """Fingerprints of every getter of grid spec=(alg, N) computed in a fresh interpreter."""
    alg, N = spec
    env = dict(os.environ)
    env["PYTHONHASHSEED"] = str(1 + (hash((alg, N)) % 1000 if False else (N * 7 + len(alg)) % 1000))
    env["OMP_NUM_THREADS"] = "1"
    scramble = 1000 + N * 13 + len(alg)
    pr = subprocess.run(["/venv/bin/python", os.path.join(VERIF_DIR, "vlib", "c08_ref.py"), REPO, alg, str(N), str(scramble)],
                        capture_output=True, text=True, env=env)
    if pr.returncode != 0:
        return {"_error": pr.stderr[-800:]}
    return json.loads(pr.stdout.strip().splitlines()[-1])


def _ref_job(spec):
    return [list(spec), fresh_reference(tuple(spec))]


class World:
    """The real objects plus the bookkeeping of what has been observed (deterministic given the op list)."""

    def __init__(self, refs):
        self.refs = refs            # {(alg,N): {getter: hash}}
        self.live = []              # [(spec, object, set(getters called))]
        self.ops = []
        self.flags = set()
        self.created = {}           # spec -> count
        self.reseed_since = {}      # spec -> bool (a reseed happened since the last construction of spec)
        self.larger_since_use = {}  # spec -> bool

    def step(self, op):
        self.ops.append(op)
        kind = op["op"]
        try:
            with quiet():
                if kind == "create":
                    spec = tuple(op["spec"])
                    if self.created.get(spec) and self.reseed_since.get(spec):
                        self.flags.add("reseed_between_two_constructions")
                    self.created[spec] = self.created.get(spec, 0) + 1
                    self.reseed_since[spec] = False
                    self.live.append((spec, make_grid(*spec), set()))
                    if len(self.live) > 6:
                        self.live.pop(0)
                    return []
                if kind == "reseed":
                    np.random.seed(op["seed"])
                    np.random.random(op["seed"] % 7)
                    for k in self.reseed_since:
                        self.reseed_since[k] = True
                    return []
                if kind == "getter":
                    if not self.live:
                        return []
                    spec, obj, called = self.live[op["obj"] % len(self.live)]
                    names = GETTERS[dim_of(spec[0])]
                    name = names[op["getter"] % len(names)]
                    if name in called:
                        self.flags.add("getter_twice_on_one_object")
                    if self.larger_since_use.get(spec):
                        self.flags.add("larger_grid_between_two_uses")
                        self.larger_since_use[spec] = False
                    called.add(name)
                    handed = call_getter(obj, name)
                    got = value_hash(handed)
                    if op.get("edit") and name not in ALIASED_BY_DESIGN:
                        # the caller edits the object it was handed in place (unit conversion, masking)
                        scribble(handed)
                        self.flags.add("caller_edited_a_result_in_place")
                    want = self.refs[spec].get(name)
                    if got != want:
                        return [f"{spec[0]}_{spec[1]}.{name}: fingerprint {got} differs from the fresh-process reference {want} "
                                f"after history of {len(self.ops)} operations"]
                    return []
                if kind == "larger":
                    spec = tuple(op["spec"])
                    alg, N = spec
                    big = make_grid(alg, N + op["extra"])
                    arr = np.asarray(big.get_grid_as_array()) if dim_of(alg) == 3 else np.asarray(big.get_grid_as_array(only_upper=True))
                    self.larger_since_use[spec] = True
                    got = value_hash(np.ascontiguousarray(arr[:N]))
                    want = self.refs[spec]["array" if dim_of(alg) == 3 else "array_upper"]
                    if got != want:
                        return [f"first {N} rows of {alg}_{N + op['extra']} differ from {alg}_{N} (fresh-process reference)"]
                    return []
        except Exception as e:
            return [f"{op}: {type(e).__name__}: {e}"]
        raise ValueError(op)


def run_ops(refs, ops):
    w = World(refs)
    for op in ops:
        msgs = w.step(op)
        if msgs:
            return msgs, w
    return [], w


def _machine_shard(arg):
    shard, n_examples, steps, pool, refs_list = arg
    refs = {tuple(k): v for k, v in refs_list}
    from hypothesis import strategies as st
    from hypothesis.stateful import RuleBasedStateMachine, rule, precondition

    def builder(res, fail):
        class Histories(RuleBasedStateMachine):
            def __init__(self):
                super().__init__()
                self.w = World(refs)

            def _do(self, op):
                msgs = self.w.step(op)
                if msgs:
                    fail({"ops": self.w.ops}, "; ".join(msgs))

            @rule(i=st.integers(0, len(pool) - 1))
            def create(self, i):
                self._do({"op": "create", "spec": list(pool[i])})

            @precondition(lambda self: len(self.w.live) > 0)
            @rule(obj=st.integers(0, 5), getter=st.integers(0, 25), edit=st.booleans())
            def getter(self, obj, getter, edit):
                self._do({"op": "getter", "obj": obj, "getter": getter, "edit": edit})

            @precondition(lambda self: len(self.w.live) > 0)
            @rule(obj=st.integers(0, 5), getters=st.lists(st.integers(0, 25), min_size=2, max_size=6), edit=st.booleans())
            def getter_burst(self, obj, getters, edit):
                for gi in getters:  # several getters on one object, any order, repeats likely
                    self._do({"op": "getter", "obj": obj, "getter": gi, "edit": edit})

            @precondition(lambda self: len(self.w.created) > 0)
            @rule(i=st.integers(0, 50))
            def recreate(self, i):
                specs = sorted(self.w.created)
                self._do({"op": "create", "spec": list(specs[i % len(specs)])})

            @precondition(lambda self: any(c for _, _, c in self.w.live))
            @rule(i=st.integers(0, 50))
            def getter_again(self, i):
                cands = [(k, nm) for k, (sp, _, called) in enumerate(self.w.live) for nm in sorted(called)]
                k, nm = cands[i % len(cands)]
                names = GETTERS[dim_of(self.w.live[k][0][0])]
                self._do({"op": "getter", "obj": k, "getter": names.index(nm)})

            @rule(seed=st.integers(0, 2 ** 31 - 1))
            def reseed(self, seed):
                self._do({"op": "reseed", "seed": seed})

            @precondition(lambda self: len(self.w.live) > 0)
            @rule(i=st.integers(0, 50), extra=st.integers(1, 9))
            def larger(self, i, extra):
                specs = [s for s, _, _ in self.w.live if s[0] in POLY]
                if specs:
                    self._do({"op": "larger", "spec": list(specs[i % len(specs)]), "extra": extra})

            def teardown(self):
                if self.w.ops:
                    case = {"ops": self.w.ops}
                    res.case(sample=case, nontrivial=bool(self.w.flags), key=case, classes=["machine"] + sorted(self.w.flags))
        return Histories

    res = Result()
    run_hypothesis(builder, res, shard, n_examples, stateful=True, step_count=steps, shrink=False)
    return res


def _prefix_job(arg):
    alg, n_max, ns = arg
    res = Result()
    try:
        with quiet():
            big = make_grid(alg, n_max)
            B = np.asarray(big.get_grid_as_array()) if dim_of(alg) == 3 else np.asarray(big.get_grid_as_array(only_upper=True))
    except Exception as e:
        res.case(sample=None, nontrivial=True, key={"prefix": [alg, n_max, n_max]}, classes=["prefix"])
        res.violation({"prefix": [alg, n_max, n_max]}, f"constructing {alg}_{n_max} raised {type(e).__name__}: {e}")
        return res
    for N in ns:
        case = {"prefix": [alg, N, n_max]}
        try:
            with quiet():
                np.random.seed(N)  # whatever state the global generator is in
                g = make_grid(alg, N)
                A = np.asarray(g.get_grid_as_array()) if dim_of(alg) == 3 else np.asarray(g.get_grid_as_array(only_upper=True))
        except Exception as e:
            res.case(sample=None, nontrivial=N >= 2, key=case, classes=["prefix", f"alg={alg}"])
            res.violation(case, f"constructing {alg}_{N} after reseeding the global generator raised {type(e).__name__}: {e}")
            continue
        res.case(sample=case if len(res.samples) < 2 else None, nontrivial=N >= 2, key=case, classes=["prefix", f"alg={alg}"])
        if A.shape != B[:N].shape or not np.array_equal(A, B[:N]):
            res.violation(case, f"{alg}_{N} is not the first {N} rows of {alg}_{n_max}")
    return res


def replay(case):
    if "fresh_process" in case:
        ref = fresh_reference(tuple(case["fresh_process"]))
        return [ref["_exception"]] if "_exception" in ref else []
    if "prefix" in case:
        alg, N, n_max = case["prefix"]
        r = _prefix_job((alg, n_max, [N]))
        return [v["message"] for v in r.violations]
    specs = sorted(set(tuple(op["spec"]) for op in case["ops"] if "spec" in op))
    refs = {s: fresh_reference(s) for s in specs}
    return run_ops(refs, case["ops"])[0]


def run(tier):
    rng = np.random.default_rng([SEED, 8])
    if tier == "quick":
        pool = []
        for alg in ("ico", "cube3D", "randomS"):
            pool += [(alg, int(n)) for n in rng.choice([5, 12, 13, 30, 42, 43, 80, 163], size=3, replace=False)] + [(alg, 3)]
        for alg in ("cube4D", "randomQ"):
            pool += [(alg, int(n)) for n in rng.choice([4, 8, 9, 17, 24, 40], size=3, replace=False)]
        # grids of different kind but equal size / equal row count (a 4D grid of N rotations has 2N rows): state that is
        # keyed by a size only would be shared between them
        n4 = min(n for a, n in pool if a == "cube4D")
        pool += [("randomQ", n4), ("ico", n4), ("cube3D", 2 * n4), ("randomS", 2 * n4)]
        # full SE(3) grids in both position modes: their getters are pure functions of the specification as well
        pool += [("FG|cube4D_4|ico_7|[0.2, 0.35]|0", 0), ("FG|randomQ_5|cube3D_9|[0.2, 0.3, 0.5]|1", 0), ("FG|1|randomS_8|[0.3]|1", 0)]
        machines, steps = 96, 25
        prefix_jobs = [("ico", 200, list(range(1, 60)) + [97, 98, 99, 161, 162, 163, 199]),
                       ("cube3D", 200, list(range(1, 60)) + [97, 98, 99, 161, 162, 163, 199]),
                       ("cube4D", 50, list(range(1, 30)) + [39, 40, 41, 49])]
    else:
        pool = []
        for alg in ("ico", "cube3D", "randomS"):
            pool += [(alg, int(n)) for n in rng.choice(np.arange(4, 200), size=8, replace=False)] + [(alg, 2), (alg, 3)]
        for alg in ("cube4D", "randomQ"):
            pool += [(alg, int(n)) for n in rng.choice(np.arange(4, 48), size=6, replace=False)] + [(alg, 3)]
        n4 = min(n for a, n in pool if a == "cube4D" and n >= 4)
        pool += [("randomQ", n4), ("ico", n4), ("cube3D", 2 * n4), ("randomS", 2 * n4)]
        pool += [("FG|cube4D_4|ico_7|[0.2, 0.35]|0", 0), ("FG|randomQ_5|cube3D_9|[0.2, 0.3, 0.5]|1", 0), ("FG|1|randomS_8|[0.3]|1", 0),
                 ("FG|cube4D_8|ico_12|linspace(0.2, 0.6, 3)|1", 0), ("FG|randomQ_6|1|[0.1, 0.2]|0", 0)]
        machines, steps = 320, 40
        prefix_jobs = []
        for alg, n_max, ns in (("ico", 700, list(range(1, 700))), ("cube3D", 700, list(range(1, 700))),
                               ("cube4D", 272, list(range(1, 121)) + list(range(124, 272, 8)) + [271])):
            prefix_jobs += [(alg, n_max, ns[k::8]) for k in range(8)]
    pool = sorted(set(pool))
    refs_list = pmap(_ref_job, pool)
    early = Result()
    for spec, ref in refs_list:
        if "_error" in ref:
            raise HarnessError(f"fresh-process reference for {spec} failed: {ref['_error']}")
        if "_exception" in ref:
            early.case(sample={"fresh_process": spec}, nontrivial=True, key={"fresh_process": spec}, classes=["fresh_process_exception"])
            early.violation({"fresh_process": spec}, f"in a fresh process {spec[0]}_{spec[1]} raised {ref['_exception']}")
    if early.violations:
        early.case(sample=None, nontrivial=True, key="pad")
        return early, "fresh-process references", {}
    results = pmap(_machine_shard, [(s, machines // 16, steps, pool, refs_list) for s in range(16)])
    results += pmap(_prefix_job, prefix_jobs)
    res = merge_results(results)
    res.violations.sort(key=lambda v: len(str(v["case"])))
    rule = (f"Hypothesis state machine over a pool of {len(pool)} grid specifications {pool}: rules create / getter (6-9 getters per "
            f"kind of grid, full SE(3) grids in both position modes included) / reseed numpy's global generator / build a larger grid of the same polytope algorithm; up to {steps} steps; "
            f"references from fresh spawned interpreters. Plus prefix enumeration grid(N) == grid(N_max)[:N] for "
            f"{[(a, m, len(n)) for a, m, n in prefix_jobs]} (algorithm, N_max, number of N). Non-trivial history = a reseed between two "
            f"constructions of one specification, a getter called twice on one object, or a larger grid built between two uses of a "
            f"smaller one; distinct = distinct operation sequence / (algorithm, N).")
    return res, rule, {"assumptions": ["cross-process comparison on this machine only (same numpy/scipy/qhull build)"]}
