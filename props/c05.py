"""
C05  Spherical-shell position cells tile the ball: exact volumes, faces, distances.

Generator (Hypothesis): direction grid (algorithm, N>=4) and a strictly increasing positive radial grid with T>=2 given as
list / tuple / linspace / range text. Oracle: the closed formulas of the statement with shell boundaries computed from
exact rational radii and area / arc / angle taken from the independent spherical Voronoi oracle (vlib.geom.s2_voronoi).
"""
from fractions import Fraction

import numpy as np

from vlib.core import Result, pmap, merge_results, run_hypothesis, quiet
from vlib import geom
from vlib.grids import scribble, sphere_grid, position_grid, dense

_ORC = {}


def direction_oracle(alg, N):
    if (alg, N) not in _ORC:
        P = np.asarray(sphere_grid(alg, N).get_grid_as_array())
        o = geom.s2_voronoi(P)
        L = np.minimum(o["length"], o["length"].T)
        _ORC[(alg, N)] = (P, L, o["area"], np.arccos(np.clip(P @ P.T, -1, 1)))
        if len(_ORC) > 40:
            _ORC.pop(next(iter(_ORC)))
    return _ORC[(alg, N)]


def radii_of(case):
    kind = case["t_kind"]
    a = [Fraction(x) for x in case["t_args"]]
    if kind in ("list", "tuple"):
        vals = sorted(a)
    elif kind == "linspace":
        n = int(a[2])
        vals = [a[0] + (a[1] - a[0]) * k / (n - 1) for k in range(n)]
    else:
        if len(a) == 1:
            a = [Fraction(0), a[0], Fraction(1)]
        elif len(a) == 2:
            a = [a[0], a[1], Fraction(1)]
        vals, x = [], a[0]
        while x < a[1]:
            vals.append(x)
            x += a[2]
    return np.array([float(v * 10) for v in vals])


def judge(case):
    alg, N = case["o_alg"], case["n_o"]
    r = radii_of(case)
    T = len(r)
    warm = case.get("warm")
    if warm:
        # what the process did before: the Cartesian variant of the very same direction / radial grids (as a position grid
        # or inside a full grid) was asked for its arrays. It is not judged here (C06 does that); the default position grid
        # queried afterwards must not depend on it.
        try:
            with quiet():
                if warm == "cartesian_position_grid":
                    other = position_grid(f"{alg}_{N}", case["t_text"], cartesian=True)
                    calls = {"volumes": other.get_all_position_volumes, "adjacency": other.get_adjacency_of_position_grid,
                             "borders": other.get_borders_of_position_grid, "distances": other.get_distances_of_position_grid}
                else:
                    from vlib.grids import full_grid
                    other = full_grid("zero4D_1" if warm == "cartesian_full_grid_1" else "cube4D_4", f"{alg}_{N}",
                                      case["t_text"], cartesian=True)
                    calls = {"volumes": other.get_total_volumes, "adjacency": other.get_full_adjacency,
                             "borders": other.get_full_borders, "distances": other.get_full_distances}
                for name in case.get("order") or []:
                    calls[name]()
        except Exception:
            pass
    try:
        pg = position_grid(f"{alg}_{N}", case["t_text"])
        raw_getters = {"volumes": pg.get_all_position_volumes, "adjacency": pg.get_adjacency_of_position_grid,
                       "borders": pg.get_borders_of_position_grid, "distances": pg.get_distances_of_position_grid}

        def as_array(name, obj):
            return np.array(obj, dtype=float) if name == "volumes" else dense(obj).astype(float) if name != "adjacency" else dense(obj).copy()
        order = case.get("order") or ["volumes", "adjacency", "borders", "distances"]
        with quiet():
            first, handed = {}, []
            for name in order:          # the getters in a generated order ...
                obj = raw_getters[name]()
                first[name] = as_array(name, obj)
                handed.append(obj)
            for obj in handed:          # ... the caller edits what it was handed in place (units, masking) ...
                scribble(obj)
            again = {name: as_array(name, raw_getters[name]()) for name in reversed(order)}   # ... and all of them once more
            lib_r = np.asarray(pg.get_radii())
        vol, adj, bor, dis = first["volumes"], first["adjacency"], first["borders"], first["distances"]
        for name in order:
            if first[name].shape != again[name].shape or not np.array_equal(first[name], again[name]):
                return [f"{name} of the same position grid differ between the first query and a second one made after the caller "
                        f"edited the first results in place "
                        f"(order {order}, max deviation {np.abs(first[name].astype(float) - again[name].astype(float)).max():.3g})"]
    except Exception as e:
        return [f"exception {type(e).__name__}: {e}"]
    n = N * T
    if vol.shape != (n,) or adj.shape != (n, n) or bor.shape != (n, n) or dis.shape != (n, n):
        return [f"shapes {vol.shape} {adj.shape} {bor.shape} {dis.shape} for n={n}"]
    if lib_r.shape != r.shape or not np.allclose(lib_r, r, rtol=1e-12):
        return [f"radii {lib_r.tolist()} != intended {r.tolist()}"]
    P, L, area, ang = direction_oracle(alg, N)
    sph_adj = L > 1e-7
    grey = (L >= 1e-12) & (L <= 1e-7)
    R = np.empty(T)
    R[:-1] = (r[:-1] + r[1:]) / 2
    R[-1] = r[-1] + (r[-1] - r[-2]) / 2
    Rb = np.concatenate([[0.0], R[:-1]])
    msgs = []
    want_vol = np.concatenate([area * (R[k] ** 3 - Rb[k] ** 3) / 3 for k in range(T)])
    want_adj = np.zeros((n, n), dtype=bool)
    want_bor = np.zeros((n, n))
    want_dis = np.zeros((n, n))
    tol_bor = np.zeros((n, n))
    for k in range(T):
        s = slice(k * N, (k + 1) * N)
        want_adj[s, s] = sph_adj
        want_bor[s, s] = np.where(sph_adj, L, 0) * (R[k] ** 2 - Rb[k] ** 2) / 2
        tol_bor[s, s] = 2e-8 * (R[k] ** 2 - Rb[k] ** 2) / 2
        want_dis[s, s] = np.where(sph_adj, ang, 0) * r[k]
        if k + 1 < T:
            for o in range(N):
                a, b = k * N + o, (k + 1) * N + o
                want_adj[a, b] = want_adj[b, a] = True
                want_bor[a, b] = want_bor[b, a] = area[o] * R[k] ** 2
                want_dis[a, b] = want_dis[b, a] = r[k + 1] - r[k]
    undecided = np.zeros((n, n), dtype=bool)
    for k in range(T):
        undecided[k * N:(k + 1) * N, k * N:(k + 1) * N] = grey
    bad = ((adj != 0) != want_adj) & ~undecided
    if bad.any():
        a, b = np.argwhere(bad)[0]
        msgs.append(f"cells {a} (shell {a // N}, dir {a % N}) and {b} (shell {b // N}, dir {b % N}): adjacency {bool(adj[a, b])}, expected {bool(want_adj[a, b])}")
    if not np.allclose(vol, want_vol, rtol=1e-10, atol=0):
        i = int(np.argmax(np.abs(vol / want_vol - 1)))
        msgs.append(f"volume of cell {i} (shell {i // N}) = {vol[i]!r}, formula {want_vol[i]!r}")
    mask = want_adj & ~undecided
    db = np.abs(bor - want_bor)
    if (db[mask] > 1e-9 * want_bor[mask] + tol_bor[mask]).any() or (bor[~want_adj & ~undecided] != 0).any():
        idx = np.argwhere(mask & (db > 1e-9 * want_bor + tol_bor))
        a, b = idx[0] if len(idx) else np.argwhere((bor != 0) & ~want_adj & ~undecided)[0]
        msgs.append(f"border ({a},{b}) = {bor[a, b]!r}, formula {want_bor[a, b]!r}")
    dd = np.abs(dis - want_dis)
    if (dd[mask] > 1e-9 * want_dis[mask] + 1e-12).any() or (dis[~want_adj & ~undecided] != 0).any():
        idx = np.argwhere(mask & (dd > 1e-9 * want_dis + 1e-12))
        a, b = idx[0] if len(idx) else np.argwhere((dis != 0) & ~want_adj & ~undecided)[0]
        msgs.append(f"distance ({a},{b}) = {dis[a, b]!r}, formula {want_dis[a, b]!r}")
    # sum rules on the library's own numbers
    for k in range(T):
        sv = vol[k * N:(k + 1) * N].sum()
        if abs(sv - 4 * np.pi / 3 * (R[k] ** 3 - Rb[k] ** 3)) > 1e-9 * sv:
            msgs.append(f"shell {k}: volumes sum to {sv!r}, shell volume {4 * np.pi / 3 * (R[k] ** 3 - Rb[k] ** 3)!r}")
        if k + 1 < T:
            sf = sum(bor[k * N + o, (k + 1) * N + o] for o in range(N))
            if abs(sf - 4 * np.pi * R[k] ** 2) > 1e-9 * sf:
                msgs.append(f"radial faces above shell {k} sum to {sf!r}, sphere area {4 * np.pi * R[k] ** 2!r}")
    if abs(vol.sum() - 4 * np.pi / 3 * R[-1] ** 3) > 1e-9 * vol.sum():
        msgs.append(f"total volume {vol.sum()!r} != (4/3) pi R_T^3 = {4 * np.pi / 3 * R[-1] ** 3!r}")
    return msgs[:5]


def _shard(arg):
    shard, n_examples, max_no = arg
    from hypothesis import given, strategies as st

    def dec(fr):
        from decimal import Decimal
        return format(Decimal(fr.numerator) / Decimal(fr.denominator), "f")

    @st.composite
    def cases(draw):
        alg = draw(st.sampled_from(["ico", "cube3D", "randomS"]))
        n_o = draw(st.integers(4, max_no))
        kind = draw(st.sampled_from(["list", "list", "tuple", "linspace", "range"]))
        T = draw(st.integers(2, 6))
        if kind in ("linspace", "range") and draw(st.integers(0, 3)) == 0:
            T = draw(st.integers(7, 64))          # many shells (linspace defaults to 50 radii)
            n_o = min(n_o, 24)                    # keeps the dense n x n comparison small
        if kind in ("list", "tuple"):
            spacing = draw(st.sampled_from(["free", "free", "nearly_regular", "tiny"]))
            if spacing == "free":
                incs = [Fraction(v, 1000) for v in draw(st.lists(st.integers(1, 3000), min_size=T, max_size=T))]
            elif spacing == "nearly_regular":
                # almost equidistant shells: steps differ by 1e-6 .. 1e-3 nm only
                base = Fraction(draw(st.integers(10, 2000)), 1000)
                eps = Fraction(1, 10 ** draw(st.integers(3, 6)))
                incs = [base + eps * draw(st.integers(-4, 4)) for _ in range(T)]
            else:  # very small radii
                incs = [Fraction(v, 10 ** 6) for v in draw(st.lists(st.integers(1, 3000), min_size=T, max_size=T))]
            vals, acc = [], Fraction(0)
            for inc in incs:
                acc += inc
                vals.append(acc)
            args = [dec(v) for v in vals]
            order = draw(st.permutations(args))
            body = ", ".join(order)
            text = "[" + body + "]" if kind == "list" else "(" + body + ")"
            args = list(order)
        elif kind == "linspace":
            a = Fraction(draw(st.integers(1, 2000)), 1000)
            span = Fraction(draw(st.integers(1, 3000)), 1000)
            if T == 50 and draw(st.booleans()):
                args = [dec(a), dec(a + span), "50"]
                text = f"linspace({args[0]}, {args[1]})"          # the default number of radii
            else:
                args = [dec(a), dec(a + span), str(T)]
                text = f"linspace({args[0]}, {args[1]}, {T})"
        elif draw(st.integers(0, 3)) == 0:
            # range with the default step of 1 nm: range(a, b) (the one-argument form starts at radius 0, which C05 excludes)
            a = Fraction(draw(st.integers(1, 3000)), 1000)
            stop = a + T - Fraction(1, 2)
            args = [dec(a), dec(stop)]
            text = draw(st.sampled_from(["range", "arange"])) + f"({args[0]}, {args[1]})"
        else:
            a = Fraction(draw(st.integers(1, 2000)), 1000)
            step = Fraction(draw(st.integers(10, 1000)), 1000)
            stop = a + step * T - step / 2  # exactly T points, far from the floating-point boundary
            args = [dec(a), dec(stop), dec(step)]
            text = f"range({args[0]}, {args[1]}, {args[2]})"
        warm = None
        if T <= 6 and n_o <= 40:
            warm = draw(st.sampled_from([None, None, None, "cartesian_position_grid", "cartesian_full_grid_1", "cartesian_full_grid_4"]))
        return {"o_alg": alg, "n_o": n_o, "t_kind": kind, "t_args": args, "t_text": text, "warm": warm,
                "order": list(draw(st.permutations(["volumes", "adjacency", "borders", "distances"])))}

    def builder(res, fail):
        @given(cases())
        def test(case):
            msgs = judge(case)
            r = radii_of(case)
            inc = np.diff(r)
            uneq = len(r) >= 3 and (inc.max() - inc.min()) > 1e-9
            levels = {"ico": (12, 42, 162), "cube3D": (8, 26, 98)}
            partial = case["n_o"] not in levels.get(case["o_alg"], ())
            res.case(sample=case, nontrivial=uneq or partial, key=case,
                     classes=[f"o={case['o_alg']}", f"t={case['t_kind']}", f"T={len(r)}" if len(r) <= 6 else "T>6"] + (["unequal_increments"] if uneq else [])
                     + (["after_cartesian_variant_of_same_grids"] if case.get("warm") else []))
            if msgs:
                fail(case, "; ".join(msgs))
        return test
    res = Result()
    run_hypothesis(builder, res, shard, n_examples)
    return res


def self_test():
    return geom.s2_self_test()


def replay(case):
    return judge(case)


def run(tier):
    total, max_no = (960, 60) if tier == "quick" else (4800, 200)
    res = merge_results(pmap(_shard, [(s, total // 16, max_no) for s in range(16)]))
    rule = (f"Hypothesis: direction grid ico/cube3D/randomS with N in 4..{max_no}; radial grid with T in 2..6 (linspace/range also 7..64 shells) strictly increasing "
            f"positive radii as unsorted list / tuple (free, nearly regular with steps differing by 1e-6..1e-3 nm, or tiny radii), linspace or range text; the four getters called in a generated order and then once more; in about a third of the small cases the Cartesian variant of the same grids (position grid, or inside a full grid) is queried first in the same process; every cell and every pair "
            f"of cells compared (dense n x n, n = N*T). Non-trivial = T>=3 with unequal increments, or N not a complete "
            f"subdivision level; distinct = distinct (direction grid, radial text).")
    return res, rule, {"assumptions": ["area, arc and angle on the unit sphere come from the independent clipping oracle; pairs whose "
                                       "arc lies in the grey zone [1e-12,1e-7] are not judged (none observed)"]}
