"""
C06  Cartesian position mode reports the Euclidean Voronoi cell geometry.

Generator: direction grid (algorithm, N>=4) x radial grid (1..4 radii), enumerated for small N plus seeded larger N.
Oracle (independent of scipy.spatial.Voronoi): extended point set = grid + one extra shell; face between two points =
their bisector plane clipped by all other bisector half planes (own 2-D clipper, shoelace area); volume = intersection
of the bisector half spaces (HalfspaceIntersection) -> ConvexHull.volume; distance = Euclidean distance.
"""
from fractions import Fraction

import numpy as np

from vlib.core import Result, pmap, merge_results, SEED, quiet, load_known
from vlib import geom
from vlib.grids import snapshot, scribble, position_grid, dense

T_GRIDS = ["[0.3]", "[0.2, 0.35]", "[0.15, 0.3, 0.4]", "linspace(0.2, 0.8, 4)", "[0.1, 0.5]", "[0.314, 0.333, 0.507]", "[0.2718]",
           "[0.001, 0.0025]", "[2.5, 4.0, 4.5]", "[0.2, 0.3001, 0.4]", "linspace(0.1, 0.2, 8)",
           "[1.0, 1.001, 1.002]", "[2, 2.001]", "linspace(1, 1.005, 6)", "[0.4, 0.15, 0.3]"]


def radii_of(text):
    from molgri.space.translations import TranslationParser
    with quiet():
        return np.asarray(TranslationParser(text).get_trans_grid(), dtype=float)


def extended_points(dirs, r):
    extra = r[-1] + (r[-1] - r[-2] if len(r) > 1 else r[-1])
    rr = np.concatenate([r, [extra]])
    return np.vstack([dirs * x for x in rr])


def judge(case):
    """Returns list of (tag, message)."""
    o, t = case["o"], case["t"]
    out = []
    from vlib.core import digest
    # what the process did before (varies from grid to grid): nothing, or the default-mode (spherical shell) variant of the
    # very same direction / radial grids was queried - as a position grid or inside a full grid. It is judged by C05, not
    # here; the Cartesian grid built afterwards must not depend on it.
    warm = (None, "spherical_position_grid", "spherical_full_grid")[int(digest([t, o]), 16) % 3]
    if warm:
        try:
            with quiet():
                if warm == "spherical_position_grid":
                    other = position_grid(o, t, cartesian=False)
                    for f in (other.get_all_position_volumes, other.get_adjacency_of_position_grid,
                              other.get_borders_of_position_grid, other.get_distances_of_position_grid):
                        f()
                else:
                    from vlib.grids import full_grid
                    other = full_grid("zero4D_1", o, t, cartesian=False)
                    for f in (other.get_total_volumes, other.get_full_adjacency, other.get_full_borders, other.get_full_distances):
                        f()
        except Exception:
            pass
    try:
        pg = position_grid(o, t, cartesian=True)
        getters = {"volumes": lambda: np.array(pg.get_all_position_volumes(), dtype=float),
                   "adjacency": pg.get_adjacency_of_position_grid, "borders": pg.get_borders_of_position_grid,
                   "distances": pg.get_distances_of_position_grid}
        import itertools
        orders = list(itertools.permutations(sorted(getters)))
        order = orders[int(digest([o, t]), 16) % len(orders)]   # a getter order that varies from grid to grid
        with quiet():
            handed = {name: getters[name]() for name in order}
            first = {name: snapshot(handed[name]) for name in order}
            vol, adj_sp, bor_sp, dis_sp = first["volumes"], first["adjacency"], first["borders"], first["distances"]
            pts = np.asarray(pg.get_position_grid_as_array(), dtype=float)
            dirs = np.asarray(pg.get_o_grid().get_grid_as_array(), dtype=float)
            for name in order:      # the caller edits what it was handed in place (units, masking) before asking again
                scribble(handed[name])
            again = {name: getters[name]() for name in reversed(order)}
        for name in order:
            a, b2 = (dense(first[name]), dense(again[name])) if name != "volumes" else (first[name], again[name])
            if a.shape != b2.shape or not np.array_equal(np.asarray(a, dtype=float), np.asarray(b2, dtype=float)):
                return [("history", f"{o} {t}: {name} differ between the first query and a second one on the same grid, made after the caller edited the first results in place (order {list(order)})")], {}
    except Exception as e:
        return [("exception", f"{o} {t}: {type(e).__name__}: {e}")], {}
    r = radii_of(t)
    n = len(dirs) * len(r)
    adj, bor, dis = dense(adj_sp).astype(bool), dense(bor_sp).astype(float), dense(dis_sp).astype(float)
    if vol.shape != (n,) or adj.shape != (n, n) or bor.shape != (n, n) or dis.shape != (n, n):
        return [("shape", f"{o} {t}: shapes {vol.shape} {adj.shape} {bor.shape} {dis.shape}")], {}
    P = extended_points(dirs, r)
    if not np.allclose(P[:n], pts, rtol=1e-12, atol=1e-12):
        return [("points", f"{o} {t}: position grid points are not direction x radius in shell-major order")], {}
    info = {"faces": 0, "faces_ge5": 0, "faces_centrally_symmetric": 0, "open_cells": 0}
    scale = r[-1]
    # conditioning: Voronoi vertices of closely spaced shells are circumcentres of flat tetrahedra; their relative accuracy
    # degrades like r / delta_r (measured: library 1.5e-9 off at r/delta_r = 1000..2000 while two independent routes of this
    # oracle agree to 1e-10). Tolerances are the nominal ones up to r/delta_r = 50 and grow linearly beyond.
    rr = np.concatenate([r, [r[-1] + (r[-1] - r[-2] if len(r) > 1 else r[-1])]])
    cond = max(1.0, float(rr.max() / np.diff(np.concatenate([[0.0], rr])).min()) / 50.0)
    info["conditioning_factor"] = round(cond, 2)
    # volumes
    for i in range(n):
        want, bounded = geom.euclid_cell_volume(P, i)
        if not bounded:
            info["open_cells"] += 1
            out.append(("open_cell", f"{o} {t}: cell {i} is unbounded even with the extra shell; reported volume {vol[i]!r}"))
            continue
        if not (vol[i] > 0) or abs(vol[i] - want) > 1e-9 * cond * want:
            out.append(("volume", f"{o} {t}: volume of cell {i} = {vol[i]!r}, Euclidean Voronoi cell volume {want!r}"))
    # pattern / symmetry
    if not np.array_equal(adj, adj.T):
        out.append(("symmetry", f"{o} {t}: adjacency not symmetric"))
    for name, M, sp in (("borders", bor, bor_sp), ("distances", dis, dis_sp)):
        if not np.allclose(M, M.T, rtol=1e-9, atol=1e-12 * scale ** 2):
            i, j = np.argwhere(~np.isclose(M, M.T, rtol=1e-9, atol=1e-12 * scale ** 2))[0]
            out.append(("symmetry", f"{o} {t}: {name} not symmetric at ({i},{j}): {M[i, j]!r} vs {M[j, i]!r}"))
        c, a = sp.tocoo(), adj_sp.tocoo()
        if not (np.array_equal(c.row, a.row) and np.array_equal(c.col, a.col)):
            out.append(("pattern", f"{o} {t}: {name} stored entries are not on the adjacency pattern / order"))
    # faces and distances on the adjacency pattern
    ii, jj = np.nonzero(np.triu(adj))
    for i, j in zip(ii, jj):
        area, poly, touches = geom.euclid_face(P, i, j)
        info["faces"] += 1
        if len(poly) >= 5:
            info["faces_ge5"] += 1
        if len(poly) >= 4 and len(poly) % 2 == 0:
            c = poly.mean(axis=0)
            refl = 2 * c - poly
            if all(np.min(np.linalg.norm(poly - q, axis=1)) < 1e-9 * scale for q in refl):
                info["faces_centrally_symmetric"] += 1
        if touches:
            out.append(("open_cell", f"{o} {t}: face ({i},{j}) is unbounded; reported border {bor[i, j]!r}"))
        elif not (bor[i, j] > 0):
            tag = "zero_border"
            out.append((tag, f"{o} {t}: border ({i},{j}) = {bor[i, j]!r} is not strictly positive; true face area {area!r}"))
        elif abs(bor[i, j] - area) > 1e-7 * cond * area + 1e-12 * scale ** 2:
            out.append(("border", f"{o} {t}: border ({i},{j}) = {bor[i, j]!r}, area of the shared Euclidean face {area!r} "
                                  f"({len(poly)} vertices)"))
        d = np.linalg.norm(P[i] - P[j])
        if abs(dis[i, j] - d) > 1e-12 * d:
            out.append(("distance", f"{o} {t}: distance ({i},{j}) = {dis[i, j]!r}, Euclidean distance {d!r}"))
    return out, info


def known_match(case, tag):
    if tag not in ("open_cell", "zero_border"):
        return None
    for k in load_known("C06"):
        if case["o"] in k["match"]["o_grids"]:
            return k
    return None


def _one(case):
    res = Result()
    found, info = judge(case)
    N = int(case["o"].split("_")[1])
    classes = [f"alg={case['o'].split('_')[0]}", f"T={len(radii_of(case['t']))}"]
    from vlib.core import digest
    if int(digest([case["t"], case["o"]]), 16) % 3:
        classes.append("after_spherical_variant_of_same_grids")
    if info.get("faces_centrally_symmetric"):
        classes.append("has_centrally_symmetric_face")
    res.extra["faces_judged"] = info.get("faces", 0)
    res.extra["faces_centrally_symmetric"] = info.get("faces_centrally_symmetric", 0)
    res.case(sample=dict(case, **info), nontrivial=info.get("faces_ge5", 0) > 0, key=case, classes=classes)
    seen_tags = set()
    for tag, msg in found:
        k = known_match(case, tag)
        if k is not None:
            res.known_finding(k["key"] + ":" + case["o"], k["what"])
            continue
        if tag not in seen_tags:  # one violation per kind and grid
            seen_tags.add(tag)
            res.violation(case, msg)
    return res


def self_test():
    return geom.euclid_self_test()


def replay(case):
    case = {"o": case["o"], "t": case["t"]}
    return [m for tag, m in judge(case)[0] if known_match(case, tag) is None]


def run(tier):
    rng = np.random.default_rng([SEED, 6])
    cases = []
    for alg in ("ico", "cube3D", "randomS"):
        if tier == "quick":
            ns = sorted(set(range(4, 31)) | {42, 43, 50, 60} | set(int(x) for x in rng.integers(31, 60, size=3)))
            big = [98, 100] if alg != "randomS" else [162]
        else:
            ns = sorted(set(range(4, 101)) | {161, 162, 163})
            big = [200, 300]
        for k, N in enumerate(ns):
            cases.append({"o": f"{alg}_{N}", "t": T_GRIDS[(k + len(alg)) % len(T_GRIDS)]})
            if N <= 12 or tier != "quick":
                cases.append({"o": f"{alg}_{N}", "t": T_GRIDS[(k + len(alg) + 3) % len(T_GRIDS)]})
        for N in big:
            cases.append({"o": f"{alg}_{N}", "t": "[0.2, 0.35]"})
    cases.sort(key=lambda c: -int(c["o"].split("_")[1]) * len(c["t"]))
    res = merge_results(pmap(_one, cases))
    res.violations.sort(key=lambda v: int(v["case"]["o"].split("_")[1]))
    rule = ("enumeration of direction grids (ico, cube3D, randomS; " + ("N in 4..30, 42, 43, 50, 60, 98/100/162 and seeded N"
            if tier == "quick" else "every N in 4..100, 161-163, 200, 300") + f") x radial grids {T_GRIDS} (1..4 radii); every cell volume, "
            "every adjacent pair's face and distance judged; for two thirds of the grids the default-mode variant of the same grids (position grid or full grid) is queried first in the same process. Non-trivial = grid with at least one face of >=5 vertices; "
            "distinct = distinct (direction grid, radial grid). Centrally symmetric faces (the order_points trigger) are counted.")
    return res, rule, {"assumptions": ["pairs judged are those on the library's adjacency pattern (the shell pattern), as the "
                                       "property states borders/distances 'on the same pattern as the adjacency'"]}
