"""
C11  Frame assignment equals geometric membership in the grid cell.

Generator (Hypothesis): a grid with n_t >= 2 from a pool, a second molecule with three distinct principal moments (planar
ones included), K rigid placements drawn continuously (rotation, direction, radius up to 1.3 x the outer boundary); plus
the pseudotrajectory of the grid itself. Oracle: shell containing |com|, direction with the largest dot product, grid
rotation with the smallest rotation angle 2 arccos|q_b.q|; index (t n_o + o) n_b + b; NaN beyond the outer boundary.
Placements closer than 1e-3 (A / rad) to a cell boundary are excluded and counted.
"""
import shutil
import tempfile

import numpy as np

from vlib.core import Result, pmap, merge_results, run_hypothesis, quiet, load_known
from vlib.molecules import write_molecule, read_molecule, shape_class, ELEMENTS
from vlib.grids import full_grid

MARGIN = 1e-3
MASS = {"H": 1.008, "C": 12.011, "N": 14.007, "O": 15.999, "S": 32.06}


def principal_moments(elements, coords):
    m = np.array([MASS[e] for e in elements])
    x = np.asarray(coords, dtype=float)
    x = x - (m[:, None] * x).sum(axis=0) / m.sum()
    I = np.zeros((3, 3))
    for mi, r in zip(m, x):
        I += mi * ((r @ r) * np.eye(3) - np.outer(r, r))
    return np.sort(np.linalg.eigvalsh(I))


def moments_distinct(elements, coords, gap=0.05):
    w = principal_moments(elements, coords)
    return w[0] > 1e-6 and (w[1] - w[0]) > gap * w[2] and (w[2] - w[1]) > gap * w[2]


def expected_assignment(arr_rows, fg_parts, include_outliers):
    """Returns (expected index or nan, ambiguous flag) per row."""
    dirs, quats, radii = fg_parts
    n_o, n_b, n_t = len(dirs), len(quats), len(radii)
    bounds = np.concatenate([(radii[:-1] + radii[1:]) / 2, [radii[-1] + (radii[-1] - radii[-2]) / 2]])
    out, amb = [], []
    for row in arr_rows:
        pos, q = row[:3], row[3:] / np.linalg.norm(row[3:])
        rr = np.linalg.norm(pos)
        ambiguous = bool(np.min(np.abs(bounds - rr)) < MARGIN)
        t = int(np.argmin(np.abs(radii - rr)))
        beyond = rr > bounds[-1]
        dots = dirs @ (pos / rr)
        o = int(np.argmax(dots))
        if n_o > 1:
            ang = np.arccos(np.clip(np.sort(dots)[::-1][:2], -1, 1))
            ambiguous |= bool(ang[1] - ang[0] < MARGIN)
        angles = 2 * np.arccos(np.clip(np.abs(quats @ q), 0, 1))
        b = int(np.argmin(angles))
        if n_b > 1:
            s = np.sort(angles)
            ambiguous |= bool(s[1] - s[0] < MARGIN)
        idx = float((t * n_o + o) * n_b + b)
        if beyond and not include_outliers:
            idx = float("nan")
        out.append(idx)
        amb.append(ambiguous)
    return np.array(out), np.array(amb)


def judge(case):
    """Returns (messages, info)."""
    from molgri.molecules.pts import Pseudotrajectory
    from molgri.molecules.transitions import AssignmentTool
    info = {"excluded": 0, "judged": 0, "rejected": False}
    g = case["grid"]
    d = tempfile.mkdtemp(prefix="c11-")
    try:
        if g.get("synthetic_nb"):
            # a product array with many rotations, laid out exactly like a full-grid array (position-major, rotation-minor);
            # the rotations are the package's own random-quaternion set without the (minutes-long) cell construction
            from molgri.space.utils import random_quaternions, hemisphere_quaternion_set
            from molgri.space.fullgrid import PositionGrid
            with quiet():
                np.random.seed(0)
                quats = np.asarray(hemisphere_quaternion_set(random_quaternions(g["synthetic_nb"])), dtype=float)
                pg = PositionGrid(g["o"], g["t"])
                positions = np.asarray(pg.get_position_grid_as_array(), dtype=float)
                dirs = np.asarray(pg.get_o_grid().get_grid_as_array(), dtype=float)
                radii = np.asarray(pg.get_radii(), dtype=float)
            grid_arr = np.hstack([np.repeat(positions, len(quats), axis=0), np.tile(quats, (len(positions), 1))])
        else:
            with quiet():
                fg = full_grid(g["b"], g["o"], g["t"])
                grid_arr = np.asarray(fg.get_full_grid_as_array())
                dirs = np.asarray(fg.get_position_grid().get_o_grid().get_grid_as_array(), dtype=float)
                quats = np.asarray(fg.b_rotations.get_grid_as_array(only_upper=True), dtype=float)
                radii = np.asarray(fg.get_position_grid().get_radii(), dtype=float)
        p1 = write_molecule(d, "m1", case["m1"]["elements"], case["m1"]["coords"], case["m1"]["fmt"])
        p2 = write_molecule(d, "m2", case["m2"]["elements"], case["m2"]["coords"], case["m2"]["fmt"])
        if case["placements"] == "grid":
            rows = grid_arr
        else:
            pl = case["placements"]
            q = np.array(pl["quats"], dtype=float)
            q /= np.linalg.norm(q, axis=1)[:, None]
            u = np.array(pl["dirs"], dtype=float)
            u /= np.linalg.norm(u, axis=1)[:, None]
            outer = radii[-1] + (radii[-1] - radii[-2]) / 2
            rr = np.array(pl["rfrac"], dtype=float) * 1.3 * outer
            rows = np.hstack([u * rr[:, None], q])
        try:
            with quiet():
                m1, m2 = read_molecule(p1), read_molecule(p2)
                uni = Pseudotrajectory(m1, m2, rows).get_pt_as_universe()
                ref = read_molecule(p2)
                tool = AssignmentTool(grid_arr, uni, ref, include_outliers=case["include_outliers"],
                                      cartesian_grid=case["cartesian_grid"])
                got = np.asarray(tool.get_full_assignments(), dtype=float)
        except ValueError as e:
            info["rejected"] = True
            return [f"ValueError: {e}"], info
        except Exception as e:
            return [f"exception {type(e).__name__}: {e}"], info
        want, amb = expected_assignment(rows, (dirs, quats, radii), case["include_outliers"])
        if case["placements"] == "grid":
            amb[:] = False  # grid points themselves are never ambiguous: they must map back to 0, 1, 2, ...
            if not np.array_equal(want, np.arange(len(rows), dtype=float)):
                return ["harness: the model does not map the grid onto itself"], info
        if got.shape != want.shape:
            return [f"{got.shape} assignments for {len(rows)} frames"], info
        info["excluded"] = int(amb.sum())
        info["judged"] = int((~amb).sum())
        same = (got == want) | (np.isnan(got) & np.isnan(want))
        bad = ~same & ~amb
        if bad.any():
            k = int(np.nonzero(bad)[0][0])
            n_b, n_o = len(quats), len(dirs)

            def split(i):
                if i != i:
                    return "NaN"
                i = int(i)
                return f"(t={i // n_b // n_o}, o={i // n_b % n_o}, b={i % n_b})"
            return [f"frame {k} (position {rows[k, :3].tolist()}, |r|={np.linalg.norm(rows[k, :3]):.4f}, q={rows[k, 3:].tolist()}) "
                    f"assigned to {got[k]} {split(got[k])}, geometric membership gives {want[k]} {split(want[k])}; "
                    f"{int(bad.sum())} of {int((~amb).sum())} judged frames wrong"], info
        return [], info
    finally:
        shutil.rmtree(d, ignore_errors=True)


MASSES = {"H": 1.008, "C": 12.011, "N": 14.007, "O": 15.999, "S": 32.06}


def f17_threshold_tie(m2):
    """Predicate of known finding F17: an atom of molecule 2 projects onto a principal axis with exactly half (within 1e-4
    relative) of the largest |projection| on that axis - the library's sign rule sits on its own threshold there."""
    X = np.asarray(m2["coords"], dtype=float)
    w = np.array([MASSES[e] for e in m2["elements"]])
    Y = X - (w[:, None] * X).sum(axis=0) / w.sum()
    inertia = sum(wi * ((y @ y) * np.eye(3) - np.outer(y, y)) for wi, y in zip(w, Y))
    _, vec = np.linalg.eigh(inertia)
    P = np.abs(Y @ vec)
    largest = P.max()
    for i in range(3):
        mx = P[:, i].max()
        if mx > 1e-4 * largest and (np.abs(P[:, i] / mx - 0.5) < 1e-4).any():
            return True
    return False


def _shard(arg):
    shard, n_examples, max_frames = arg
    from hypothesis import given, assume, strategies as st

    @st.composite
    def molecule2(draw):
        kind = draw(st.sampled_from(["generic", "generic", "planar_axis", "planar_tilted", "water_like", "elongated"]))
        bases = [((0.6, 0.8, 0.0), (0.0, 0.0, 1.0)), ((0.6, 0.0, 0.8), (0.0, 1.0, 0.0)), ((0.36, 0.48, 0.8), (0.8, -0.6, 0.0)),
                 ((1.0, 0.0, 0.0), (0.0, 1.0, 0.0))]
        if kind == "generic":
            n = draw(st.integers(4, 9))
            scale = draw(st.sampled_from([(1.0, 1.7, 2.6), (2.4, 1.0, 1.6), (1.5, 2.5, 1.0)]))
            pts = np.array([[draw(st.integers(-2000, 2000)) / 1000 * sc for sc in scale] for _ in range(n)])
            els = [draw(st.sampled_from(ELEMENTS)) for _ in range(n)]
        elif kind == "elongated":
            # a chain molecule (cumulene / diyne like): a backbone of heavy atoms exactly on the long principal axis, substituents
            # at both ends with a much smaller extent across; the backbone atoms have zero projection on the short axes
            e1, e2 = (np.array(v) for v in draw(st.sampled_from(bases)))
            e3 = np.cross(e1, e2)
            m = draw(st.integers(2, 5))
            w1, w2 = draw(st.integers(5, 10)) / 10, draw(st.integers(5, 10)) / 10
            lift = draw(st.sampled_from([0.0, 0.0, 0.25, 0.4]))
            xs = (np.arange(m) - (m - 1) / 2) * 1.3
            pts = [x * e1 for x in xs]
            els = [draw(st.sampled_from(["C", "C", "N"])) for _ in range(m)]
            sub = draw(st.sampled_from(["H", "H", "O", "S"]))
            pts += [(xs[0] - 0.55) * e1 + w1 * e2 + lift * e3, (xs[0] - 0.55) * e1 - w1 * e2 + lift * e3,
                    (xs[-1] + 0.55) * e1 + w2 * e2 - lift * e3, (xs[-1] + 0.55) * e1 - w2 * e2 - lift * e3]
            els += [sub, sub, "H", "H"]
            pts = np.array(pts)
        elif kind == "water_like":
            # C2v triatomic: exactly planar, the heavy atom sits on a principal axis (the F12 trigger when it is listed last)
            e1, e2 = (np.array(v) for v in draw(st.sampled_from(bases)))
            a, h = draw(st.integers(5, 12)) / 10, draw(st.integers(3, 9)) / 10
            pts = np.array([0 * e1, a * e1 - h * e2, -a * e1 - h * e2])
            els = [draw(st.sampled_from(["O", "S", "N", "C"])), "H", "H"]
        else:
            e1, e2 = (np.array(v) for v in (bases[3] if kind == "planar_axis" else draw(st.sampled_from(bases[:3]))))
            n = draw(st.integers(3, 8))
            ab = draw(st.lists(st.tuples(st.integers(-20, 20), st.integers(-30, 30)), min_size=n, max_size=n, unique=True))
            pts = np.array([a / 10 * e1 + b / 10 * 1.5 * e2 for a, b in ab])
            els = [draw(st.sampled_from(ELEMENTS)) for _ in range(n)]
        pts = pts + np.array([draw(st.integers(-30, 30)) / 10 for _ in range(3)])
        # chain molecules keep 6 decimals (xyz only): their backbone atoms stay on the long axis to ~1e-6 A also when tilted
        pts = np.round(pts, 6 if kind == "elongated" else 3)
        _, idx = np.unique(pts, axis=0, return_index=True)
        keep = np.sort(idx)
        pts, els = pts[keep], [els[i] for i in keep]
        order = list(draw(st.permutations(range(len(pts)))))
        if kind == "elongated" and draw(st.booleans()):
            order = list(range(len(pts)))       # as chemists write them: backbone first, substituents last
        pts, els = pts[order], [els[i] for i in order]
        assume(len(pts) >= 3 and moments_distinct(els, pts))
        return {"elements": els, "coords": pts.tolist(), "fmt": "xyz" if kind == "elongated" else draw(st.sampled_from(["xyz", "gro"])),
                "kind": kind}

    @st.composite
    def cases(draw):
        b = draw(st.sampled_from(["zero4D_1", "cube4D_4", "cube4D_7", "cube4D_8", "cube4D_12", "randomQ_5", "randomQ_9", "randomQ_12"]))
        o = draw(st.sampled_from(["zero3D_1", "ico_2", "ico_5", "ico_12", "ico_20", "cube3D_4", "cube3D_9", "randomS_7", "randomS_16"]))
        t = draw(st.sampled_from(["[0.2, 0.3]", "[0.2, 0.3, 0.4]", "[0.15, 0.3, 0.35, 0.6]", "linspace(0.3, 0.9, 3)",
                                  "[0.8, 1.6, 2.4, 3.2]", "[1.5, 2.0, 3.5]", "[4.0, 6.5]"]))
        m1_n = draw(st.integers(1, 4))
        m1 = {"elements": [draw(st.sampled_from(ELEMENTS)) for _ in range(m1_n)],
              "coords": [[draw(st.integers(-1500, 1500)) / 1000 + 0.37 * k for _ in range(3)] for k in range(m1_n)], "fmt": "xyz"}
        if draw(st.integers(0, 3)) == 0:
            placements = "grid"
        else:
            K = draw(st.integers(1, max_frames))
            quats, dirs = [], []
            for _ in range(K):
                q = [draw(st.integers(-100, 100)) for _ in range(4)]
                quats.append(q if any(q) else [0, 0, 0, 1])
                u = [draw(st.integers(-100, 100)) for _ in range(3)]
                dirs.append(u if any(u) else [0, 0, 1])
            placements = {"quats": quats, "dirs": dirs,
                          "rfrac": [draw(st.integers(20, 1000)) / 1000 for _ in range(K)]}
        grid = {"b": b, "o": o, "t": t}
        if draw(st.integers(0, 9)) == 0:
            grid = {"b": "synthetic", "synthetic_nb": draw(st.sampled_from([255, 256, 257, 300])),
                    "o": draw(st.sampled_from(["zero3D_1", "ico_2", "cube3D_4"])), "t": "[0.3, 0.5]"}
        return {"grid": grid, "m1": m1, "m2": draw(molecule2()), "placements": placements,
                "include_outliers": draw(st.booleans()), "cartesian_grid": draw(st.booleans())}

    known = load_known("C11")

    def builder(res, fail):
        @given(cases())
        def test(case):
            msgs, info = judge(case)
            sc = shape_class(case["m2"]["coords"])
            res.undecided += 0
            res.extra["placements_judged"] = res.extra.get("placements_judged", 0) + info["judged"]
            res.extra["placements_excluded_near_boundary"] = res.extra.get("placements_excluded_near_boundary", 0) + info["excluded"]
            res.case(sample=case, nontrivial=case["placements"] != "grid" and info["judged"] > 0, key=case,
                     classes=[f"m2={sc}", f"m2kind={case['m2'].get('kind')}", "placements=grid" if case["placements"] == "grid" else "placements=continuous",
                              f"outliers={case['include_outliers']}", f"cartesian_metric={case['cartesian_grid']}"]
                     + (["more_than_250_rotations"] if case["grid"].get("synthetic_nb") else []))
            if msgs and known and f17_threshold_tie(case["m2"]):
                res.known_finding(known[0]["key"], known[0]["what"])
                res.classes["f17_threshold_tie_molecule_failed"] += 1
                return
            if msgs:
                fail(case, "; ".join(msgs))
        return test
    res = Result()
    run_hypothesis(builder, res, shard, n_examples, shrink=False)
    return res


def _long_job(arg):
    """One long trajectory (more than 5000 frames, not a round number): frame-wise processing in blocks must not lose the tail."""
    seed, K = arg
    from vlib.core import SEED
    rng = np.random.default_rng([SEED, 11, seed])
    q = rng.standard_normal((K, 4))
    u = rng.standard_normal((K, 3))
    case = {"grid": {"b": "cube4D_8", "o": "ico_7", "t": "[0.2, 0.3, 0.45]"},
            "m1": {"elements": ["O"], "coords": [[0.1, -0.2, 0.3]], "fmt": "xyz"},
            "m2": {"elements": ["C", "N", "O", "H", "S"], "coords": [[0.0, 0.0, 0.0], [1.4, 0.1, 0.0], [-0.5, 1.2, 0.3], [0.2, -0.4, 1.1], [-1.1, -0.9, -0.6]],
                   "fmt": "xyz", "kind": "generic"},
            "placements": {"quats": np.round(q, 6).tolist(), "dirs": np.round(u, 6).tolist(), "rfrac": np.round(rng.uniform(0.05, 1.0, K), 6).tolist()},
            "include_outliers": bool(seed % 2), "cartesian_grid": True}
    res = Result()
    msgs, info = judge(case)
    res.extra["placements_judged"] = info["judged"]
    res.extra["placements_excluded_near_boundary"] = info["excluded"]
    small = dict(case, placements={"n_frames": K, "seed": [SEED, 11, seed]})
    res.case(sample=small, nontrivial=True, key=small, classes=["long_trajectory(>5000 frames)", "placements=continuous"])
    if msgs:
        res.violation(case, "; ".join(msgs))
    return res


def _f17_probe(_):
    """The recorded input of known finding F17, judged on every run: reported as KNOWN-FINDING while it fails."""
    import json
    import os
    res = Result()
    case = json.load(open(os.path.join(os.path.dirname(os.path.abspath(__file__)), "c11_f17_probe.json")))
    known = load_known("C11")
    msgs, info = judge(case)
    res.case(sample=case, nontrivial=True, key=case, classes=["f17_probe"])
    if msgs and known and f17_threshold_tie(case["m2"]):
        res.known_finding(known[0]["key"], known[0]["what"])
    elif msgs:
        res.violation(case, "; ".join(msgs))
    return res


def replay(case):
    if "m2" in case and load_known("C11") and f17_threshold_tie(case["m2"]):
        return []       # known finding F17 (reported by the run as KNOWN-FINDING), not a new violation

    return judge(case)[0]


def run(tier):
    total, max_frames = (192, 20) if tier == "quick" else (3200, 40)
    jobs = [(s, total // 16, max_frames) for s in range(16)]
    results = pmap(_long_job, [(0, 5347)] if tier == "quick" else [(0, 5347), (1, 10001), (2, 7919)])
    results += pmap(_shard, jobs)
    results += pmap(_f17_probe, [0])
    res = merge_results(results)
    rule = (f"Hypothesis: grid from 8 rotation grids x 9 direction grids x 7 radial grids (n_t>=2, outer boundary 0.35 .. 7.75 nm), one case in ten with 255..300 rotations (product array built from the package's random-quaternion set); molecule 2 with 3..9 atoms, three "
            f"distinct principal moments (relative gaps >= 5 %), planar or generic, atoms in random order, off-centre, .xyz or .gro; "
            f"1..{max_frames} placements with rotation from a normalised integer quaternion, direction from a normalised integer "
            f"vector, radius in (0.02, 1.3] x outer boundary, or the grid's own pseudotrajectory (one case in four); plus one trajectory of 5347 frames (thorough: also 7919 and 10001); both settings of "
            f"include_outliers and of the direction metric. Non-trivial = continuous placements with at least one judged frame; "
            f"distinct = distinct input. Placements within 1e-3 (A / rad) of a cell boundary are excluded (counted).")
    return res, rule, {"assumptions": ["placements are produced with the package's Pseudotrajectory from arbitrary rows (its correctness is C10)",
                                       "second molecules have three distinct principal moments (relative gaps >= 5 %)"]}
