"""
C09  Full-grid row order is position-major, rotation-minor and is recoverable.

Generator (Hypothesis): algorithm pair, n_b, n_o, 1..4 distinct positive radii written as decimals in any order, position
mode; index subsets as lists / arrays / None with repeats. Oracle: row n == (10 * radius[(n div n_b) div n_o] *
direction[(n div n_b) mod n_o], quaternion[n mod n_b]) from separately constructed sphere grids and exact decimal radii;
index helpers == div / mod; decomposition returns the generating grids in order.
"""
from fractions import Fraction

import numpy as np

from vlib.core import Result, pmap, merge_results, run_hypothesis, quiet
from vlib.grids import scribble, sphere_grid, full_grid


def expected_parts(case):
    b_alg, n_b, o_alg, n_o = case["b_alg"], case["n_b"], case["o_alg"], case["n_o"]
    quats = np.asarray(sphere_grid(b_alg if n_b > 1 else "zero4D", n_b).get_grid_as_array(only_upper=True))
    dirs = np.asarray(sphere_grid(o_alg if n_o > 1 else "zero3D", n_o).get_grid_as_array())
    radii = np.array(sorted(float(Fraction(r) * 10) for r in case["radii"]))
    return quats, dirs, radii


def judge(case):
    from molgri.space.fullgrid import from_full_array_to_o_b_t
    n_b, n_o = case["n_b"], case["n_o"]
    n_t = len(case["radii"])
    n = n_b * n_o * n_t
    t_name = "[" + ", ".join(case["radii"]) + "]"
    msgs = []
    try:
        fg = full_grid(f"{case['b_alg']}_{n_b}", f"{case['o_alg']}_{n_o}", t_name, factor=2, cartesian=case["cartesian"])
        with quiet():
            handed = fg.get_full_grid_as_array()
            arr = np.array(handed)
    except Exception as e:
        return [f"exception {type(e).__name__}: {e}"]
    if arr.shape != (n, 7):
        return [f"array shape {arr.shape}, expected {(n, 7)}"]
    with quiet():
        # the arrays handed out belong to the caller: it converts the full array and the position array to other units
        # in place, then asks the same grid again
        scribble(handed)
        scribble(fg.get_position_grid().get_position_grid_as_array())
        arr_again = np.asarray(fg.get_full_grid_as_array())
    if arr_again.shape != arr.shape or not np.array_equal(arr_again, arr):
        return [f"a second call of get_full_grid_as_array() on the same grid (after the caller edited the full array and the "
                f"position array it was handed in place) returns different rows "
                f"(shape {arr_again.shape}" + (f", max deviation {np.abs(arr_again - arr).max():.3g})" if arr_again.shape == arr.shape else ")")]
    quats, dirs, radii = expected_parts(case)
    idx = np.arange(n)
    pos_i, q_i = idx // n_b, idx % n_b
    want = np.hstack([radii[pos_i // n_o][:, None] * dirs[pos_i % n_o], quats[q_i]])
    if not np.allclose(arr, want, rtol=1e-12, atol=1e-12):
        r = int(np.argmax(np.abs(arr - want).max(axis=1)))
        msgs.append(f"row {r} = {arr[r].tolist()} but position-major/rotation-minor order gives {want[r].tolist()}")
    if (len(fg), fg.get_b_N(), fg.get_o_N(), fg.get_t_N()) != (n, n_b, n_o, n_t):
        msgs.append(f"sizes (len, n_b, n_o, n_t) = {(len(fg), fg.get_b_N(), fg.get_o_N(), fg.get_t_N())}")
    for ix in case["index_sets"]:
        for form in ("list", "array"):
            if ix is None:
                arg, ref = None, idx
            else:
                ref = np.array(ix, dtype=int)
                arg = list(ix) if form == "list" else ref
            try:
                with quiet():
                    gp = np.asarray(fg.get_position_index(arg))
                    gq = np.asarray(fg.get_quaternion_index(arg))
            except Exception as e:
                msgs.append(f"index helpers({arg!r}): {type(e).__name__}: {e}")
                break
            if gp.shape != ref.shape or not np.array_equal(gp, ref // n_b):
                msgs.append(f"get_position_index({ix}) = {gp.tolist()[:10]}, expected n div n_b")
                break
            if gq.shape != ref.shape or not np.array_equal(gq, ref % n_b):
                msgs.append(f"get_quaternion_index({ix}) = {gq.tolist()[:10]}, expected n mod n_b")
                break
    try:
        arr_before = arr.copy()
        with quiet():
            o_back, b_back, t_back = from_full_array_to_o_b_t(arr)
            o_back2, b_back2, t_back2 = from_full_array_to_o_b_t(arr)
    except Exception as e:
        return msgs + [f"decomposition raised {type(e).__name__}: {e}"]
    if not np.array_equal(arr, arr_before):
        msgs.append("decomposing the full array modified the array that was passed in")
    if not (np.array_equal(o_back, o_back2) and np.array_equal(b_back, b_back2) and np.array_equal(t_back, t_back2)):
        msgs.append("decomposing the same array twice gives different grids")
    for name, back, gen in (("direction", o_back, dirs), ("rotation", b_back, quats), ("radial", t_back, radii)):
        back = np.asarray(back)
        if back.shape != gen.shape or not np.allclose(back, gen, rtol=0, atol=1e-8):
            msgs.append(f"decomposition: {name} grid comes back with shape {back.shape} / different order "
                        f"(expected shape {gen.shape})")
    return msgs


def _shard(arg):
    shard, n_examples = arg
    from hypothesis import given, strategies as st

    @st.composite
    def cases(draw):
        n_b = draw(st.sampled_from([1, 2, 3, 4, 5, 6, 7, 8, 9, 10, 12]))
        # mostly small direction grids, sometimes enough positions to pass 256 / 512 position cells
        n_o = draw(st.integers(1, 30)) if draw(st.integers(0, 3)) else draw(st.integers(60, 180))
        n_t = draw(st.integers(1, 4))
        rad = draw(st.lists(st.integers(1, 9999), min_size=n_t, max_size=n_t, unique=True))
        digits = draw(st.sampled_from([1, 2, 3, 3, 13]))
        if digits == 13:  # radii that are not representable with few decimals (thirds, sevenths ...)
            den = draw(st.sampled_from([3, 7, 30, 70, 900]))
            radii = [f"{r / den / 10:.13f}" for r in rad]
        else:
            radii = [f"{r / 10 ** digits:.{digits}f}" for r in rad]
        radii = list(dict.fromkeys(radii))
        n = n_b * n_o * len(radii)
        cart = draw(st.booleans()) and n_o >= 4
        ix = st.one_of(st.none(), st.lists(st.integers(0, n - 1), min_size=0, max_size=20),
                       st.lists(st.integers(max(0, n - 40), n - 1), min_size=1, max_size=20))  # also the tail of the grid
        return {"b_alg": draw(st.sampled_from(["cube4D", "randomQ"])), "n_b": n_b,
                "o_alg": draw(st.sampled_from(["ico", "cube3D", "randomS"])), "n_o": n_o, "radii": radii,
                "cartesian": cart, "index_sets": draw(st.lists(ix, min_size=1, max_size=5))}

    def builder(res, fail):
        @given(cases())
        def test(case):
            msgs = judge(case)
            nt = len(case["radii"])
            spec = {k: case[k] for k in ("b_alg", "n_b", "o_alg", "n_o", "radii")}
            res.case(sample=case, nontrivial=case["n_b"] >= 2 and case["n_o"] >= 2 and nt >= 2, key=spec,
                     classes=[f"b={case['b_alg']}", f"o={case['o_alg']}", "cartesian" if case["cartesian"] else "spherical",
                              f"n_t={nt}", "n_b=1" if case["n_b"] == 1 else "n_b>1"]
                     + (["more_than_256_positions"] if case["n_o"] * nt > 256 else [])
                     + (["radii_with_13_decimals"] if any(len(r.split(".")[1]) > 6 for r in case["radii"]) else []))
            if msgs:
                fail(case, "; ".join(msgs))
        return test
    res = Result()
    run_hypothesis(builder, res, shard, n_examples)
    return res


def replay(case):
    return judge(case)


def run(tier):
    total = 480 if tier == "quick" else 8000
    res = merge_results(pmap(_shard, [(s, total // 16) for s in range(16)]))
    rule = ("Hypothesis: rotation algorithm cube4D/randomQ with n_b in {1..10,12}, direction algorithm ico/cube3D/randomS with "
            "n_o in 1..30 or 60..180, 1..4 distinct positive radii as decimals with 1..3 or 13 decimals (unsorted), both position modes, 1..5 index sets (None or "
            "lists of up to 20 in-range indices with repeats, passed as list and as array). Non-trivial = n_b, n_o, n_t all "
            ">= 2; distinct = distinct grid specification.")
    return res, rule, {"assumptions": ["component grids come from separately constructed sphere-grid objects (their own "
                                       "correctness is C07/C08)", "indices passed to the helpers are in 0..n-1"]}
