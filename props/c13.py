"""
C13  Merging and deleting cells is exact lumping with correct index bookkeeping.

* Hypothesis rule-based state machine: merge / delete rules on a real (matrix, index list) pair threaded exactly as a
  caller would, for a dense ndarray and a csr_array in lock-step, next to an explicit lumping model.
* Exhaustive: all histories of up to 3 operations on n<=3 (quick) / n<=4 (thorough) cells, operations = every set
  partition given as join lists and every deletion subset.
* Combined step SQRA.cut_and_merge with the four limit combinations.
"""
import itertools

import numpy as np
from scipy.sparse import csr_array

from vlib.core import Result, pmap, merge_results, run_hypothesis, quiet, digest, SEED


# ----------------------------------------------------------------------------------------------------------------------
# model
# ----------------------------------------------------------------------------------------------------------------------

def _uf_groups(n_items, unions):
    parent = list(range(n_items))

    def find(x):
        while parent[x] != x:
            parent[x] = parent[parent[x]]
            x = parent[x]
        return x
    for a, b in unions:
        ra, rb = find(a), find(b)
        if ra != rb:
            parent[max(ra, rb)] = min(ra, rb)
    comp = {}
    for i in range(n_items):
        comp.setdefault(find(i), []).append(i)
    return list(comp.values())


class Model:
    def __init__(self, M0):
        self.M0 = np.array(M0, dtype=float)
        n = len(self.M0)
        self.groups = [[i] for i in range(n)]
        self.M = self.M0.copy()
        self.deleted_any = False

    def copy(self):
        m = Model(self.M0)
        m.groups = [list(g) for g in self.groups]
        m.M = self.M.copy()
        m.deleted_any = self.deleted_any
        return m

    def _row_of(self):
        return {c: r for r, g in enumerate(self.groups) for c in g}

    def merge_alternatives(self, join_lists):
        """Both readings of 'cells no longer present are ignored': (A) a join list still links its other members
        through an absent cell shared with another list; (B) absent cells are dropped before anything else."""
        row_of = self._row_of()
        n_rows = len(self.groups)
        out = []
        # B: drop absent ids first
        unions = []
        for jl in join_lists:
            rows = [row_of[c] for c in jl if c in row_of]
            unions += [(rows[0], r) for r in rows[1:]]
        out.append(_uf_groups(n_rows, unions))
        # A: close the join lists over original ids first
        ids = sorted(set(c for jl in join_lists for c in jl))
        pos = {c: k for k, c in enumerate(ids)}
        comps = _uf_groups(len(ids), [(pos[jl[0]], pos[c]) for jl in join_lists for c in jl[1:]])
        unions = []
        for comp in comps:
            rows = [row_of[ids[k]] for k in comp if ids[k] in row_of]
            unions += [(rows[0], r) for r in rows[1:]]
        alt = _uf_groups(n_rows, unions)
        if sorted(map(sorted, alt)) != sorted(map(sorted, out[0])):
            out.append(alt)
        return out

    def apply_grouping(self, row_groups):
        row_groups = sorted((sorted(g) for g in row_groups), key=lambda g: min(min(self.groups[r]) for r in g))
        new_groups = [sorted(c for r in g for c in self.groups[r]) for g in row_groups]
        k = len(row_groups)
        P = np.zeros((len(self.groups), k))
        for col, g in enumerate(row_groups):
            P[g, col] = 1
        self.M = P.T @ self.M @ P
        self.groups = new_groups

    def delete(self, cells):
        keep = [r for r, g in enumerate(self.groups) if not (set(g) & set(cells))]
        self.groups = [self.groups[r] for r in keep]
        M = self.M[np.ix_(keep, keep)]
        M = M - np.diag(M.sum(axis=1))
        self.M = M
        self.deleted_any = True


def dense_of(m):
    return np.asarray(m.toarray() if hasattr(m, "toarray") else m, dtype=float)


def il_plain(il):
    return None if il is None else [[int(c) for c in g] for g in il]


def check_against_model(model, mat, il, tag):
    """Invariants of the statement for one real (matrix, index list) pair."""
    msgs = []
    il = il_plain(il)
    if il != model.groups:
        return [f"{tag}: index list {il} but lumping model has {model.groups}"]
    A = dense_of(mat)
    k = len(model.groups)
    if A.shape != (k, k):
        return [f"{tag}: matrix shape {A.shape} but {k} groups"]
    flat = [c for g in il for c in g]
    if len(flat) != len(set(flat)) or any(g != sorted(g) for g in il) or [min(g) for g in il] != sorted(min(g) for g in il):
        msgs.append(f"{tag}: index list not disjoint/sorted/ordered: {il}")
    n0 = len(model.M0)
    P = np.zeros((n0, k))
    for col, g in enumerate(il):
        P[g, col] = 1.0
    want_all = P.T @ model.M0 @ P                 # sums of the original entries over A x B
    tol_all = 1e-12 * (P.T @ np.abs(model.M0) @ P) + 1e-300
    offd = ~np.eye(k, dtype=bool)
    badm = offd & (np.abs(A - want_all) > tol_all)
    if badm.any():
        a, b = np.argwhere(badm)[0]
        msgs.append(f"{tag}: entry ({il[a]},{il[b]}) = {A[a, b]!r}, sum of original entries = {want_all[a, b]!r}")
        return msgs
    scale = np.abs(model.M).sum() + np.abs(model.M0).sum() + 1e-300
    if not np.allclose(A, model.M, rtol=0, atol=1e-12 * scale):
        msgs.append(f"{tag}: matrix (incl. diagonal) differs from the lumping model by {np.abs(A - model.M).max():.3g}")
    rs = A.sum(axis=1) if k else np.zeros(0)
    zero_rows_expected = model.deleted_any or np.allclose(model.M0.sum(axis=1), 0, atol=1e-12 * scale)
    if zero_rows_expected and k and np.abs(rs).max() > 1e-11 * scale:
        msgs.append(f"{tag}: rows do not sum to zero (max {np.abs(rs).max():.3g})")
    if np.array_equal(model.M0, model.M0.T) and not np.allclose(A, A.T, rtol=0, atol=1e-12 * scale):
        msgs.append(f"{tag}: symmetric input became asymmetric")
    return msgs


class History:
    """Real dense + sparse pairs and the model, advanced one operation at a time."""

    def __init__(self, M0):
        from molgri.molecules import rate_merger
        self.rm = rate_merger
        self.M0 = np.array(M0, dtype=float)
        self.model = Model(self.M0)
        self.real = {"dense": (self.M0.copy(), None), "sparse": (csr_array(self.M0), None)}
        self.ops = []
        self.flags = set()

    def n_rows(self):
        return len(self.model.groups)

    def close(self, a, b):
        """Equality of two result matrices up to summation order: entries are sums of up to n*n original entries (with
        cancellation in zero-row-sum matrices), so the tolerance is absolute, 1e-12 of the total input magnitude."""
        a, b = dense_of(a), dense_of(b)
        return a.shape == b.shape and np.allclose(a, b, rtol=0, atol=1e-12 * (np.abs(self.M0).sum() + 1e-300))

    @staticmethod
    def _as_form(lists, form):
        """Equivalent ways of passing the same cell ids: python ints, numpy integers, tuples, arrays."""
        if form == 1:
            return [[np.int64(c) for c in l] for l in lists]
        if form == 2:
            return [tuple(l) for l in lists]
        if form == 3:
            return [np.array(l, dtype=int) for l in lists]
        return [list(l) for l in lists]

    def _merge(self, state, lists, form=0):
        mat, il = state
        with quiet():
            return self.rm.merge_matrix_cells(my_matrix=mat, all_to_join=self._as_form(lists, form), index_list=il)

    def _delete(self, state, cells, form=0):
        mat, il = state
        arg = [list(cells), [np.int64(c) for c in cells], tuple(cells), np.array(cells, dtype=int)][form % 4]
        with quiet():
            return self.rm.delete_rate_cells(mat, to_remove=arg, index_list=il)

    def step(self, op):
        self.ops.append(op)
        msgs = []
        pre_model = self.model.copy()
        pre_real = dict(self.real)
        present = set(c for g in self.model.groups for c in g)
        try:
            if op["kind"] == "merge":
                lists = op["lists"]
                named = set(c for l in lists for c in l)
                if named - present:
                    self.flags.add("merge_names_deleted_cell")
                if any(len(g) > 1 and set(g) & named for g in self.model.groups):
                    self.flags.add("merge_names_merged_cell")
                if self.model.deleted_any:
                    self.flags.add("merge_after_delete")
                alts = self.model.merge_alternatives(lists)
                if len(alts) > 1:
                    self.flags.add("ambiguous_link_through_deleted_cell")
                new_real = {k: self._merge(v, lists, op.get("form", 0)) for k, v in self.real.items()}
                got = il_plain(new_real["dense"][1])
                chosen = None
                for alt in alts:
                    m = pre_model.copy()
                    m.apply_grouping(alt)
                    if m.groups == got:
                        chosen = m
                        break
                if chosen is None:
                    m = pre_model.copy()
                    m.apply_grouping(alts[0])
                    return [f"merge {lists}: index list {got}, expected {m.groups}"
                            + (f" (or the reading through deleted cells)" if len(alts) > 1 else "")]
                self.model = chosen
                self.real = new_real
                # metamorphic replays from the same pre-state (sparse side)
                perm = op.get("perm") or [0]
                variant = [list(l)[::-1] for l in lists][::-1]  # every list, other order, members reversed
                variant += [list(lists[i % len(lists)]) for i in perm[:op.get("dup", 1)]]  # plus redundant copies
                variant = variant[perm[0] % len(variant):] + variant[:perm[0] % len(variant)]
                for kind in ("sparse", "dense"):
                    alt_res = self._merge(pre_real[kind], variant)
                    if il_plain(alt_res[1]) != self.model.groups or not self.close(alt_res[0], self.real[kind][0]):
                        msgs.append(f"merge {lists}: reordered/duplicated join lists {variant} give a different result "
                                    f"({kind}): {il_plain(alt_res[1])}")
                        break
                if len(alts) == 1 and len(lists) > 1:
                    st = pre_real["sparse"]
                    for l in lists:
                        st = self._merge(st, [l])
                    if il_plain(st[1]) != self.model.groups or not self.close(st[0], self.real["sparse"][0]):
                        msgs.append(f"merge {lists}: step-wise merging gives {il_plain(st[1])}, one-shot {self.model.groups}")
            else:
                cells = op["cells"]
                if any(len(g) > 1 and set(g) & set(cells) for g in self.model.groups):
                    self.flags.add("delete_merged_group")
                self.model.delete(cells)
                self.real = {k: self._delete(v, cells, op.get("form", 0)) for k, v in self.real.items()}
        except Exception as e:
            return [f"{op}: exception {type(e).__name__}: {e}"]
        for kind, (mat, il) in self.real.items():
            msgs += check_against_model(self.model, mat, il, kind)
        if not self.close(self.real["dense"][0], self.real["sparse"][0]):
            msgs.append("dense and sparse inputs give different matrices")
        return msgs


def run_history(case):
    h = History(np.array(case["M0"], dtype=float))
    for op in case["ops"]:
        if h.n_rows() == 0:
            break
        msgs = h.step(op)
        if msgs:
            return msgs, h
    return [], h


# ----------------------------------------------------------------------------------------------------------------------
# matrices
# ----------------------------------------------------------------------------------------------------------------------

def make_matrix(kind, n, values, scale=1.0, nearly=0.0):
    """values: n*n numbers. kinds: general, symmetric, rate (zero row sums), symrate. scale: overall magnitude;
    nearly: relative perturbation that makes a symmetric matrix only nearly symmetric."""
    A = np.array(values[:n * n], dtype=float).reshape(n, n) * scale
    if nearly and kind in ("symmetric", "symrate"):
        A = np.triu(A) + np.triu(A, 1).T
        pert = np.array([((i * 7 + j * 13) % 11 - 5) / 5.0 for i in range(n) for j in range(n)]).reshape(n, n)
        A = A * (1 + nearly * np.triu(pert, 1))
        if kind == "symrate":
            A = np.abs(A)
            np.fill_diagonal(A, 0)
            A = A - np.diag(A.sum(axis=1))
        return A
    if kind in ("symmetric", "symrate"):
        A = np.triu(A) + np.triu(A, 1).T
    if kind in ("rate", "symrate"):
        A = np.abs(A)
        np.fill_diagonal(A, 0)
        A = A - np.diag(A.sum(axis=1))
    return A


# ----------------------------------------------------------------------------------------------------------------------
# exhaustive
# ----------------------------------------------------------------------------------------------------------------------

def set_partitions(items):
    if not items:
        yield []
        return
    first, rest = items[0], items[1:]
    for p in set_partitions(rest):
        for i in range(len(p)):
            yield p[:i] + [[first] + p[i]] + p[i + 1:]
        yield [[first]] + p


def all_ops(n):
    ops = []
    for p in set_partitions(list(range(n))):
        ops.append({"kind": "merge", "lists": [b for b in p if len(b) > 1] or [[0]]})
    for k in range(0, n + 1):
        for sub in itertools.combinations(range(n), k):
            ops.append({"kind": "delete", "cells": list(sub)})
    return ops


def _exh_chunk(arg):
    n, first_op, depth, kind = arg
    res = Result()
    rng = np.random.default_rng([n, 13])
    M0 = make_matrix(kind, n, list(rng.integers(-9, 10, size=n * n) + rng.integers(1, 4, size=n * n) * 0.25))
    ops = all_ops(n)
    for d in range(0, depth):
        for tail in itertools.product(ops, repeat=d):
            case = {"M0": M0.tolist(), "ops": [first_op] + list(tail), "matrix_kind": kind}
            msgs, h = run_history(case)
            res.case(sample=case if len(res.samples) < 2 else None,
                     nontrivial=bool(h.flags & {"merge_after_delete", "merge_names_merged_cell"}), key=case,
                     classes=["exhaustive"] + sorted(h.flags))
            if msgs:
                res.violation(case, "; ".join(msgs))
    return res


# ----------------------------------------------------------------------------------------------------------------------
# stateful machine
# ----------------------------------------------------------------------------------------------------------------------

def _machine_shard(arg):
    shard, n_examples, steps = arg
    from hypothesis import strategies as st
    from hypothesis.stateful import RuleBasedStateMachine, rule, initialize, precondition

    def builder(res, fail):
        class Lumping(RuleBasedStateMachine):
            def __init__(self):
                super().__init__()
                self.h = None

            @initialize(n=st.one_of(st.integers(2, 9), st.integers(2, 9), st.integers(2, 9), st.sampled_from([40, 130, 257, 300])),
                        kind=st.sampled_from(["general", "symmetric", "rate", "symrate"]),
                        integral=st.booleans(), scale=st.sampled_from([1.0, 1.0, 1e-9, 1e-13, 1e7]),
                        nearly=st.sampled_from([0.0, 0.0, 1e-6, 1e-9]), data=st.data())
            def init(self, n, kind, integral, scale, nearly, data):
                el = st.integers(-20, 20).map(float) if integral else st.floats(-100, 100, allow_nan=False, width=32)
                if n <= 9:
                    vals = data.draw(st.lists(el, min_size=n * n, max_size=n * n))
                else:  # large matrices: values from a seeded generator (drawing 90 000 elements one by one is pointless)
                    rng = np.random.default_rng(data.draw(st.integers(0, 10 ** 6)))
                    vals = list(np.round(rng.uniform(-20, 20, size=n * n), 0 if integral else 3))
                self.n = n
                self.kind = kind + ("" if scale == 1.0 else f"*{scale:g}") + ("" if not nearly else f"~{nearly:g}")
                self.h = History(make_matrix(kind, n, vals, scale=scale, nearly=nearly))

            def _case(self):
                return {"M0": self.h.M0.tolist(), "ops": self.h.ops, "matrix_kind": self.kind}

            def _after(self, msgs):
                if msgs:
                    fail(self._case(), "; ".join(msgs))

            @precondition(lambda self: self.h is not None and self.h.n_rows() > 0)
            @rule(data=st.data())
            def merge(self, data):
                ids = st.integers(0, self.n - 1) if self.n <= 9 else st.one_of(st.integers(0, self.n - 1), st.integers(self.n - 6, self.n - 1),
                                                                             st.integers(250, 260).filter(lambda v: v < self.n))
                lists = data.draw(st.lists(st.lists(ids, min_size=1, max_size=4), min_size=1, max_size=3))
                perm = data.draw(st.lists(st.integers(0, 5), min_size=len(lists), max_size=len(lists) + 2))
                self._after(self.h.step({"kind": "merge", "lists": lists, "perm": perm,
                                         "dup": data.draw(st.integers(0, 2)), "form": data.draw(st.integers(0, 3))}))

            @precondition(lambda self: self.h is not None and self.h.n_rows() > 0)
            @rule(data=st.data())
            def delete(self, data):
                cells = data.draw(st.lists(st.integers(0, self.n - 1), min_size=0, max_size=3 if self.n <= 9 else 12))
                self._after(self.h.step({"kind": "delete", "cells": cells, "form": data.draw(st.integers(0, 3))}))

            @precondition(lambda self: self.h is not None and self.h.n_rows() == 0)
            @rule()
            def nothing_left(self):
                pass  # everything deleted: the claim ends here

            def teardown(self):
                if self.h is not None and self.h.ops:
                    res.case(sample=self._case(),
                             nontrivial=bool(self.h.flags & {"merge_after_delete", "merge_names_merged_cell"}),
                             key=self._case(), classes=["machine", "matrix=" + self.kind.split("*")[0].split("~")[0]]
                             + (["matrix_tiny_or_huge_magnitude"] if "*" in self.kind else [])
                             + (["matrix_nearly_symmetric"] if "~" in self.kind else []) + sorted(self.h.flags))
        return Lumping

    res = Result()
    run_hypothesis(builder, res, shard, n_examples, stateful=True, step_count=steps)
    return res


# ----------------------------------------------------------------------------------------------------------------------
# combined step
# ----------------------------------------------------------------------------------------------------------------------

def judge_cut_and_merge(case):
    from molgri.molecules.transitions import SQRA
    from scipy.constants import k as kB, N_A
    n = case["n"]
    E = np.array(case["E"], dtype=float)
    V = np.array(case["V"], dtype=float)
    T = float(case["T"])
    pairs = [tuple(p) for p in case["pairs"]]
    H = np.zeros((n, n))
    S = np.zeros((n, n))
    for (i, j), h, s in zip(pairs, case["h"], case["S"]):
        H[i, j] = H[j, i] = h
        S[i, j] = S[j, i] = s
    try:
        with quiet():
            sq = SQRA(E, V, csr_array(H), csr_array(S))
            Q = sq.get_rate_matrix(D=1.0, T=T)
            Q0 = dense_of(Q).copy()
    except Exception as e:
        return [f"exception {type(e).__name__}: {e}"], None
    # a history of calls on ONE model object: every call is judged on its own (the reduction is a function of the matrix
    # and the limits passed in, not of what the object was asked before)
    history = [[case["lower"], case["upper"]]] + [list(x) for x in case.get("then", [])]
    info = {}
    for step, (lower, upper) in enumerate(history):
        msgs, one = _judge_one_cut_and_merge(sq, Q.copy(), Q0, E, pairs, n, T, lower, upper)
        for k, v in (one or {}).items():
            info[k] = bool(info.get(k)) or bool(v)
        if msgs:
            if step:
                msgs = [f"call {step + 1} on the same SQRA object (limits so far {history[:step + 1]}): " + m for m in msgs]
            return msgs, info
    return [], info


def _judge_one_cut_and_merge(sq, Q, Q0, E, pairs, n, T, lower, upper):
    from scipy.constants import k as kB, N_A
    try:
        with quiet():
            out, il = sq.cut_and_merge(Q, T=T, lower_limit=lower, upper_limit=upper)
    except Exception as e:
        return [f"exception {type(e).__name__}: {e}"], None
    A = dense_of(out)
    info = {"reduced": A.shape[0] < n}
    if il is None:
        if A.shape != (n, n) or not np.array_equal(A, Q0):
            return [f"no index list returned although the matrix changed (shape {A.shape}, lower={lower}, upper={upper})"], info
    # model of what must happen
    model = Model(Q0)
    if lower is not None:
        dimless = np.abs(E[:, None] - E[None, :]) * 1000 / (kB * N_A * T)
        join = [[i, j] for (i, j) in pairs if dimless[i, j] < lower]
        if join:
            model.apply_grouping(model.merge_alternatives(join)[0])
    if upper is not None:
        too_high = [int(i) for i in np.nonzero(E * 1000 / (kB * N_A * T) > upper)[0]]
        model.delete(too_high)
    info["merged"] = any(len(g) > 1 for g in model.groups)
    info["cut"] = len(set(c for g in model.groups for c in g)) < n
    if il is None:
        if info["merged"] or info["cut"]:
            return [f"matrix returned unchanged with no index list, but model groups are {model.groups}"], info
        return [], info
    il = il_plain(il)
    if len(il) != A.shape[0]:
        return [f"index list has {len(il)} groups for a {A.shape} matrix"], info
    msgs = check_against_model(model, out, il, "cut_and_merge")
    return msgs, info


def judge_large_cam(case):
    """The combined step on a long chain of cells (sizes around sqrt(2^31), where index arithmetic changes regime): energies
    constant on blocks of `block` cells, a few blocks far above the upper limit. The expected index list is known in
    closed form; the matrix is compared with the sparse lumping L^T M L (diagonal = minus the off-diagonal row sum)."""
    from molgri.molecules.transitions import SQRA
    from scipy.sparse import diags, csr_array as csr
    n, blk, T = int(case["n"]), int(case["block"]), 300.0
    rng = np.random.default_rng(int(case["rng"]))
    i = np.arange(n - 1)
    rows, cols = np.concatenate([i, i + 1]), np.concatenate([i + 1, i])
    idt = np.dtype(case["index_dtype"])
    ones = np.ones(2 * (n - 1))
    dist = csr((ones, (rows.astype(idt), cols.astype(idt))), shape=(n, n))
    block = np.arange(n) // blk
    energies = (block % 7).astype(float)
    n_blocks = int(block[-1]) + 1
    high = np.unique(np.linspace(1, n_blocks - 2, 9).astype(int))
    energies[np.isin(block, high)] += 100.0
    off = csr((rng.uniform(0.5, 2.0, size=2 * (n - 1)), (rows.astype(idt), cols.astype(idt))), shape=(n, n))
    M = csr(off - diags(np.asarray(off.sum(axis=1)).ravel(), format="csr"))
    lower = 0.001 if case["lower"] else None
    upper = 20.0 if case["upper"] else None
    try:
        with quiet():
            sq = SQRA(energies=energies, volumes=np.ones(n), distances=dist, surfaces=dist.copy())
            out, il = sq.cut_and_merge(M.copy(), T=T, lower_limit=lower, upper_limit=upper)
    except Exception as e:
        return [f"n={n}: cut_and_merge raised {type(e).__name__}: {e}"]
    dropped = set(high.tolist()) if upper is not None else set()
    if lower is not None:
        groups = [list(range(blk * b, min(blk * b + blk, n))) for b in range(n_blocks) if b not in dropped]
    else:
        groups = [[c] for c in range(n) if int(block[c]) not in dropped]
    if il is None:
        return [f"n={n}: no index list although {n - len(groups)} rows must go"]
    got = il_plain(il)
    if got != groups:
        k = next((k for k, (a, b) in enumerate(zip(got, groups)) if a != b), min(len(got), len(groups)))
        return [f"n={n}: index list has {len(got)} groups, expected {len(groups)}; first difference at group {k}: "
                f"{got[k] if k < len(got) else None} vs {groups[k] if k < len(groups) else None}"]
    G = len(groups)
    if out.shape != (G, G):
        return [f"n={n}: matrix shape {out.shape} for {G} groups"]
    member = np.concatenate([np.asarray(g) for g in groups])
    gid = np.concatenate([np.full(len(g), k) for k, g in enumerate(groups)])
    L = csr((np.ones(len(member)), (member, gid)), shape=(n, G))
    want = csr(L.T @ M @ L).tolil()
    want.setdiag(0)
    want = want.tocsr()
    want = csr(want - diags(np.asarray(want.sum(axis=1)).ravel(), format="csr"))
    diff = abs(csr(out) - want)
    scale = abs(want).max()
    if diff.max() > 1e-9 * scale:
        r, c = np.unravel_index(int(diff.tocoo().data.argmax()), (1, diff.nnz))[1], 0
        co = diff.tocoo()
        k = int(co.data.argmax())
        return [f"n={n}: entry ({co.row[k]},{co.col[k]}) of the reduced matrix deviates from the lumping of the input by {co.data[k]:.3g}"]
    return []


def _large_cam_job(case):
    res = Result()
    msgs = judge_large_cam(case)
    res.case(sample=case, nontrivial=True, key=case, classes=["cut_and_merge", "large_chain(>=46341 cells)" if case["n"] >= 46341 else "chain"])
    if msgs:
        res.violation(case, "; ".join(msgs))
    return res


def _cam_shard(arg):
    shard, n_examples = arg
    from hypothesis import given, strategies as st
    from scipy.constants import k as kB, N_A

    @st.composite
    def cases(draw):
        n = draw(st.integers(2, 10))
        allpairs = [(i, j) for i in range(n) for j in range(i + 1, n)]
        mask = draw(st.lists(st.booleans(), min_size=len(allpairs), max_size=len(allpairs)))
        pairs = [p for p, m in zip(allpairs, mask) if m] or [allpairs[0]]
        # energies on a coarse lattice so that equal and well separated differences both occur
        E = [draw(st.integers(-8, 8)) * draw(st.sampled_from([0.5, 0.5, 2.0])) for _ in range(n)]
        T = draw(st.sampled_from([200.0, 273.0, 300.0, 350.0]))
        pos = st.floats(0.1, 10.0)
        case = {"n": n, "pairs": [list(p) for p in pairs], "E": E, "T": T,
                "V": draw(st.lists(pos, min_size=n, max_size=n)),
                "h": draw(st.lists(pos, min_size=len(pairs), max_size=len(pairs))),
                "S": draw(st.lists(pos, min_size=len(pairs), max_size=len(pairs)))}
        Earr = np.array(E, dtype=float)
        beta = 1000 / (kB * N_A * T)
        dvals = sorted(set(abs(Earr[i] - Earr[j]) * beta for i, j in pairs))
        evals = sorted(set(Earr * beta))

        def between(vals, lo_pad, hi_pad):
            cuts = [vals[0] - lo_pad] + [(a + b) / 2 for a, b in zip(vals, vals[1:])] + [vals[-1] + hi_pad]
            return draw(st.sampled_from(cuts))
        case["lower"] = between(dvals, 1.0, 1.0) if draw(st.booleans()) else None
        case["upper"] = between(evals, 1.0, 1.0) if draw(st.booleans()) else None
        # further calls with other limits on the same SQRA object
        case["then"] = [[between(dvals, 1.0, 1.0) if draw(st.booleans()) else None,
                         between(evals, 1.0, 1.0) if draw(st.booleans()) else None]
                        for _ in range(draw(st.sampled_from([0, 0, 1, 2, 3])))]
        return case

    def builder(res, fail):
        @given(cases())
        def test(case):
            msgs, info = judge_cut_and_merge(case)
            info = info or {}
            cl = ["cut_and_merge", f"lower={'set' if case['lower'] is not None else 'none'}",
                  f"upper={'set' if case['upper'] is not None else 'none'}"]
            cl += [k for k in ("merged", "cut") if info.get(k)]
            if case.get("then"):
                cl.append("several_calls_on_one_object")
            if info.get("merged") is False and info.get("cut") is False:
                cl.append("nothing_merged_nothing_cut")
            res.case(sample=case, nontrivial=bool(info.get("merged") or info.get("cut")), key=case, classes=cl)
            if msgs:
                fail(case, "; ".join(msgs))
        return test

    res = Result()
    run_hypothesis(builder, res, shard, n_examples)
    return res


def replay(case):
    if case.get("large_chain"):
        return judge_large_cam(case)
    if "ops" in case:
        return run_history(case)[0]
    return judge_cut_and_merge(case)[0]


def run(tier):
    if tier == "quick":
        n_exh, depth, machines, steps, cam = 3, 3, 1600, 12, 3200
    else:
        n_exh, depth, machines, steps, cam = 4, 3, 12000, 30, 32000
    jobs = []
    for n in range(2, n_exh + 1):
        for kind in ("general", "symrate"):
            for op in all_ops(n):
                jobs.append((n, op, depth, kind))
    results = pmap(_exh_chunk, jobs)
    n_exhaustive = sum(r.evaluations for r in results)
    results += pmap(_machine_shard, [(s, machines // 16, steps) for s in range(16)])
    results += pmap(_cam_shard, [(100 + s, cam // 16) for s in range(16)])
    chains = [{"large_chain": True, "n": n, "block": b, "rng": SEED * 100 + k, "lower": lo, "upper": up, "index_dtype": dt}
              for k, (n, b, lo, up, dt) in enumerate([(600, 3, True, True, "int32"), (46341, 3, True, False, "int32"),
                                                      (50001, 3, True, True, "int32"), (70001, 4, True, True, "int32"),
                                                      (70001, 2, False, True, "int32"), (66000, 3, True, True, "int64")])]
    if tier == "quick":
        chains = chains[:4]
    results += pmap(_large_cam_job, chains)
    res = merge_results(results)
    res.violations.sort(key=lambda v: len(str(v["case"])))
    rule = (f"(1) exhaustive: every history of 1..{depth} operations on n=2..{n_exh} cells, operation = any set partition "
            f"given as join lists or any deletion subset, two matrix kinds; (2) Hypothesis state machine: n in 2..9 (occasionally 40, 130, 257, 300), "
            f"merge rules with 1..3 join lists of 1..4 ids (repeats, overlaps, merged and deleted members), delete rules, "
            f"dense and csr in lock-step, up to {steps} steps; (3) SQRA.cut_and_merge on generated energies/adjacency with "
            f"all four limit combinations, limits placed between the occurring values, followed (40 %) by 1..3 further calls "
            f"with other limits on the same SQRA object, each judged on its own. (4) cut_and_merge on chains of 600 / 46 341 / 50 001 / 70 001 cells with block-constant energies (expected groups in closed form, matrix compared with the sparse lumping). Non-trivial history = a merge after a "
            f"delete or a merge naming an already merged cell (cut_and_merge: something merged or cut); distinct = distinct "
            f"(matrix, operation sequence).")
    return res, rule, {"extra": {"exhaustive_part_evaluations": n_exhaustive,
                                 "exhaustive_part": f"all operation sequences up to length {depth} for n<={n_exh} completed"},
                       "assumptions": ["cell ids in join/delete lists are in 0..n-1",
                                       "join lists linked only through an already deleted cell: both readings accepted",
                                       "0x0 matrices (everything deleted) are outside the claim; histories stop there"]}
