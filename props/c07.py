"""
C07  Every generated sphere grid is N distinct unit points; rotations are unique.

Generator: (algorithm, N) enumerated - every small N, level boundaries +-1 and seeded larger N (quick); every N up to
the exploration bound (thorough). Oracle: shape, unit norm, pairwise separation (KD-tree), canonical half, no two rows
the same rotation, exact double-cover layout, N=1 names.
"""
import numpy as np
from scipy.spatial import cKDTree

from vlib.core import Result, pmap, merge_results, SEED, quiet
from vlib.grids import fresh_sphere_grid

ALGS3 = ("ico", "cube3D", "randomS")
ALGS4 = ("cube4D", "randomQ")
LEVELS = {"ico": (12, 42, 162, 642, 2562), "cube3D": (8, 26, 98, 386, 1538), "cube4D": (8, 40, 272), "fulldiv": (8, 40, 272)}


def min_chord(points, also_antipodes=False):
    if len(points) < 2:
        return np.inf
    pts = np.vstack([points, -points]) if also_antipodes else points
    tree = cKDTree(pts)
    d, idx = tree.query(points, k=2)
    return float(d[:, 1].min())


def judge(case):
    alg, N = case["alg"], case["N"]
    msgs = []
    try:
        if case.get("by_name"):
            from molgri.naming import GridNameParser
            with quiet():
                p = GridNameParser(case["by_name"], case["role"])
                alg_used, N_used = p.get_alg(), p.get_N()
            g = fresh_sphere_grid(alg_used, N_used)
        else:
            if alg in ("cube4D", "randomQ", "fulldiv") and 2 * N <= 120:
                # a direction grid with as many rows as this rotation grid's double cover, looked at through its documented
                # upper-half view first: a rotation grid must not depend on what was built before in the process
                with quiet():
                    fresh_sphere_grid(("ico", "cube3D", "randomS")[N % 3], 2 * N).get_grid_as_array(only_upper=True)
            g = fresh_sphere_grid(alg, N)
    except Exception as e:
        return [f"{alg}_{N}: construction raised {type(e).__name__}: {e}"]
    dim4 = alg in ("cube4D", "randomQ", "fulldiv", "zero4D")
    with quiet():
        if dim4:
            upper = np.asarray(g.get_grid_as_array(only_upper=True))
            full = np.asarray(g.get_grid_as_array(only_upper=False))
            default = np.asarray(g.get_grid_as_array())
        else:
            upper = np.asarray(g.get_grid_as_array())
            full = None
    d = 4 if dim4 else 3
    if upper.shape != (N, d):
        return [f"{alg}_{N}: array shape {upper.shape}, expected {(N, d)}"]
    norms = np.linalg.norm(upper, axis=1)
    if np.abs(norms - 1).max() > 1e-12:
        msgs.append(f"{alg}_{N}: row norm deviates from 1 by {np.abs(norms - 1).max():.3g}")
    mc = min_chord(upper)
    if mc <= 1e-9:
        msgs.append(f"{alg}_{N}: two rows coincide (min chord {mc:.3g})")
    if alg in ("ico", "cube3D") and N >= 2 and mc < 1 / np.sqrt(N):
        msgs.append(f"{alg}_{N}: min chord {mc:.4f} < 1/sqrt(N) = {1 / np.sqrt(N):.4f}")
    if dim4:
        if not np.array_equal(default, upper):
            msgs.append(f"{alg}_{N}: default array is not the upper-half array")
        if full.shape != (2 * N, 4):
            msgs.append(f"{alg}_{N}: double cover shape {full.shape}")
        else:
            if not np.array_equal(full[:N], upper):
                msgs.append(f"{alg}_{N}: first N rows of the double cover are not the N grid rows")
            if not np.array_equal(full[N:], -full[:N]):
                msgs.append(f"{alg}_{N}: double cover is not [G; -G] in the same order")
        for i, q in enumerate(upper):
            nz = np.nonzero(np.abs(q) > 1e-9)[0]
            if len(nz) == 0 or q[nz[0]] <= 0:
                msgs.append(f"{alg}_{N}: row {i} = {q.tolist()} not in the canonical half")
                break
        if N >= 2:
            dots = np.abs(upper @ upper.T)
            np.fill_diagonal(dots, 0)
            if dots.max() >= 1 - 1e-12:
                i, j = np.unravel_index(np.argmax(dots), dots.shape)
                msgs.append(f"{alg}_{N}: rows {i} and {j} represent the same rotation")
            if alg in ("cube4D", "fulldiv"):
                mca = min_chord(upper, also_antipodes=True)
                if mca < 0.6 / np.cbrt(N):
                    msgs.append(f"{alg}_{N}: min chord (incl. antipodes) {mca:.4f} < 0.6/cbrt(N) = {0.6 / np.cbrt(N):.4f}")
    if not dim4 and 2 <= N <= 80 and not case.get("by_name"):
        # the same direction grid while it is in use inside a (single-shell and two-shell) full grid: still N unit rows
        try:
            from molgri.space.fullgrid import FullGrid
            for t in ("[0.3]", "[0.2, 0.45]"):
                with quiet():
                    fg = FullGrid("1", f"{alg}_{N}", t)
                    fg.get_full_grid_as_array()
                    fg.get_position_grid().get_position_grid_as_array()
                    held = np.asarray(fg.get_position_grid().get_o_grid().get_grid_as_array())
                if held.shape != upper.shape or not np.array_equal(held, upper):
                    msgs.append(f"{alg}_{N}: the direction grid held by FullGrid('1', '{alg}_{N}', '{t}') is no longer the generated grid after "
                                f"the position array was requested (row norms {np.linalg.norm(held, axis=1).min():.4g}.."
                                f"{np.linalg.norm(held, axis=1).max():.4g})")
                    break
        except Exception as e:
            msgs.append(f"{alg}_{N}: FullGrid use raised {type(e).__name__}: {e}")
    if case.get("by_name") or alg.startswith("zero"):
        want = np.array([[0, 0, 0, 1.0]]) if dim4 else np.array([[0, 0, 1.0]])
        if not np.array_equal(upper, want):
            msgs.append(f"{case.get('by_name', alg)}: N=1 grid is {upper.tolist()}, expected {want.tolist()}")
    return msgs


def _one(case):
    res = Result()
    msgs = judge(case)
    alg, N = case["alg"], case["N"]
    kind = "random" if alg.startswith("random") else ("level" if N in LEVELS.get(alg, ()) else "partial_level")
    res.case(sample=case, nontrivial=N >= 2, key=case, classes=[f"alg={alg}", kind, "4D" if alg in ALGS4 + ("fulldiv", "zero4D") else "3D"])
    if msgs:
        res.violation(case, "; ".join(msgs))
    return res


def _session(seq):
    """Several grids of one algorithm created one after the other in one process, sizes going down and up again (a grid
    is a function of its name, not of what the process built before)."""
    res = Result()
    before = []
    for alg, N in seq:
        case = {"alg": alg, "N": N, "after": [list(x) for x in before]}
        msgs = judge(case)
        res.case(sample=case, nontrivial=N >= 2, key=case, classes=[f"alg={alg}", "session_history"])
        if msgs:
            res.violation(case, "; ".join(msgs))
        before.append((alg, N))
    return res


def _polytope_sweep(arg):
    """Every N up to the level bound through the polytope getter the grid classes use: exactly N rows, a bit-exact prefix of
    the complete level (no Voronoi construction, so all N are affordable in the quick tier)."""
    kind, levels = arg
    from molgri.space.polytopes import Cube4DPolytope, IcosahedronPolytope, Cube3DPolytope
    res = Result()
    try:
        with quiet():
            p = {"cube4D": Cube4DPolytope, "ico": IcosahedronPolytope, "cube3D": Cube3DPolytope}[kind]()
            for _ in range(levels):
                p.divide_edges()
            full = np.asarray(p.get_half_of_hypercube(projection=True) if kind == "cube4D" else p.get_nodes(projection=True))
    except Exception as e:
        case = {"polytope": kind, "levels": levels, "N": 0}
        res.case(sample=case, nontrivial=True, key=case, classes=["polytope_prefix_sweep"])
        res.violation(case, f"{kind} polytope: subdividing to level {levels} raised {type(e).__name__}: {e}")
        return res
    step = 1 if kind == "cube4D" else 7
    for N in list(range(1, len(full) + 1, step)) + [len(full)]:
        case = {"polytope": kind, "levels": levels, "N": N}
        try:
            with quiet():
                part = np.asarray(p.get_half_of_hypercube(N=N, projection=True) if kind == "cube4D" else p.get_nodes(N=N, projection=True))
            bad = None if (part.shape == (N, full.shape[1]) and np.array_equal(part, full[:N])) else \
                f"{kind} polytope (level {levels}): the first {N} points are not {N} rows equal to the prefix of the complete level (shape {part.shape})"
        except Exception as e:
            bad = f"{kind} polytope (level {levels}): requesting the first {N} of {len(full)} points raised {type(e).__name__}: {e}"
        res.case(sample=case if N in (1, len(full)) else None, nontrivial=N >= 2, key=case, classes=["polytope_prefix_sweep", f"alg={kind}"])
        if bad:
            res.violation(case, bad)
    return res


def replay(case):
    if "polytope" in case:
        r = _polytope_sweep((case["polytope"], case["levels"]))
        return [v["message"] for v in r.violations if v["case"]["N"] == case["N"]]
    for alg, N in case.get("after", []):      # reproduce the process history
        judge({"alg": alg, "N": N})
    return judge(case)


def run(tier):
    rng = np.random.default_rng([SEED, 7])
    cases = []
    if tier == "quick":
        for alg in ALGS3:
            ns = set(range(1, 51))
            for lv in LEVELS.get(alg, (100, 300)):
                if lv <= 700:
                    ns |= {lv - 1, lv, lv + 1}
            ns |= set(int(x) for x in rng.integers(51, 700, size=30))
            # up to the end of the fourth subdivision level (2562 icosahedron points), for every direction algorithm
            ns |= set(int(x) for x in rng.integers(700, 2563, size=5)) | {2562}
            cases += [{"alg": alg, "N": n} for n in sorted(ns)]
        for alg in ALGS4:
            ns = set(range(1, 41)) | {41, 42}
            ns |= set(int(x) for x in rng.integers(43, 110, size=8))
            ns.add(272)  # the largest grid of the exploration bound: its rows are those of every smaller N (prefix property)
            cases += [{"alg": alg, "N": n} for n in sorted(ns)]
        cases += [{"alg": "fulldiv", "N": 8}, {"alg": "fulldiv", "N": 40}]
    else:
        bounds = {"ico": 2563, "cube3D": 1539, "randomS": 2563, "cube4D": 272, "randomQ": 272}
        for alg, b in bounds.items():
            cases += [{"alg": alg, "N": n} for n in range(1, b + 1)]
        cases += [{"alg": "fulldiv", "N": n} for n in (8, 40, 272)]
    cases += [{"alg": "zero3D", "N": 1}, {"alg": "zero4D", "N": 1}]
    for name, role, alg in (("ico_1", "o", "zero3D"), ("cube3D_1", "o", "zero3D"), ("randomS_1", "o", "zero3D"), ("1", "o", "zero3D"),
                            ("zero", "o", "zero3D"), ("cube4D_1", "b", "zero4D"), ("randomQ_1", "b", "zero4D"),
                            ("fulldiv_1", "b", "zero4D"), ("1", "b", "zero4D"), ("zero", "b", "zero4D")):
        cases.append({"alg": alg, "N": 1, "by_name": name, "role": role})
    # expensive first so the pool stays busy
    cases.sort(key=lambda c: -(c["N"] ** (2 if c["alg"] in ALGS4 + ("fulldiv",) else 1)))
    results = pmap(_one, cases)
    results += pmap(_polytope_sweep, [("cube4D", 2), ("ico", 3), ("cube3D", 3)])
    sessions = [[("fulldiv", 40), ("fulldiv", 8), ("fulldiv", 40)], [("fulldiv", 8), ("fulldiv", 40), ("fulldiv", 8)],
                [("cube4D", 60), ("cube4D", 8), ("cube4D", 41), ("cube4D", 60)], [("randomQ", 50), ("randomQ", 7), ("randomQ", 50)],
                [("ico", 162), ("ico", 12), ("ico", 43), ("ico", 12)], [("cube3D", 98), ("cube3D", 8), ("cube3D", 27), ("cube3D", 98)],
                [("randomS", 80), ("randomS", 9), ("randomS", 80)]]
    if tier != "quick":
        sessions += [[("fulldiv", 272), ("fulldiv", 40), ("fulldiv", 8), ("fulldiv", 272)],
                     [("cube4D", 272), ("cube4D", 9), ("cube4D", 100)], [("ico", 642), ("ico", 13), ("ico", 200)],
                     [("cube3D", 386), ("cube3D", 9), ("cube3D", 100)]]
    results += pmap(_session, sessions)
    res = merge_results(results)
    res.violations.sort(key=lambda v: v["case"]["N"])
    rule = ("enumeration of (algorithm, N): " + ("every N in 1..50 (3D) / 1..42 (4D), level boundaries +-1, seeded larger N up to 700 / 110, 5 seeded N in 700..2562 and N=2562 for each direction algorithm, N=272 for both rotation algorithms, fulldiv 8 and 40"
            if tier == "quick" else "every N in 1..2563 (ico), 1..1539 (cube3D), 1..2563 (randomS), 1..272 (cube4D, randomQ), fulldiv 8/40/272")
            + ", the zero grids and every N=1 name; plus, without building cells, every N in 1..272 through the hypercube half-selection (level 2) and every 7th N through the level-3 icosahedron / cube node getters. Plus sessions: several grids of one algorithm created one after the other in one process, sizes going down and up again (fulldiv 40-8-40, 8-40-8, cube4D 60-8-41-60, ...). Non-trivial = N>=2; distinct = distinct (algorithm, N, history).")
    return res, rule, {"exhaustive": tier == "thorough",
                       "assumptions": ["fulldiv 2080 is beyond the exploration bound (construction > 1 h)"]}
