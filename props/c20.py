"""
C20  Persisted grids and energy tables are read back value- and order-exact.

(a) Grids: specs from a small pool -> GridWriter.save_* -> GridReader.load_*; arrays bit-identical, sparse matrices
    identical in format, shape, data, indices/indptr (or row/col).
(b) Energy files: Hypothesis text generation of GROMACS-style xvg files inside the stated envelope; oracle = own line
    splitter + float(token); frame shape, column names, row order, exact values; single column; csv round trip.
"""
import itertools
import os
import shutil
import tempfile

import numpy as np

from vlib.core import Result, pmap, merge_results, run_hypothesis, quiet


# ----------------------------------------------------------------------------------------------------------------------
# grids
# ----------------------------------------------------------------------------------------------------------------------

def sparse_identical(a, b):
    if type(a) is not type(b) and a.format != b.format:
        return f"format {a.format} -> {b.format}"
    if a.format != b.format:
        return f"format {a.format} -> {b.format}"
    if a.shape != b.shape:
        return f"shape {a.shape} -> {b.shape}"
    if a.dtype != b.dtype:
        return f"dtype {a.dtype} -> {b.dtype}"
    names = ("row", "col", "data") if a.format == "coo" else ("indptr", "indices", "data")
    for nm in names:
        x, y = getattr(a, nm), getattr(b, nm)
        if x.shape != y.shape or not np.array_equal(x, y):
            return f"{nm} differs"
    return None


T_ALT = {"[0.2]": "[0.35]", "[0.1, 0.3]": "[0.15, 0.45]", "linspace(0.2, 0.6, 3)": "linspace(0.3, 0.9, 3)"}


def judge_grid(case):
    from molgri.io import GridWriter, GridReader
    d = tempfile.mkdtemp(prefix="c20-")
    msgs = []
    try:
        with quiet():
            w = GridWriter(case["b"], case["o"], case["t"], factor=case["factor"],
                           position_grid_cartesian=case["cartesian"])
            p = {k: os.path.join(d, k) for k in ("full_array.npy", "volumes.npy", "borders.npz", "distances.npz",
                                                 "adjacency.npz")}
            saves = [lambda: w.save_full_grid(p["full_array.npy"]), lambda: w.save_volumes(p["volumes.npy"]),
                     lambda: w.save_borders_array(p["borders.npz"]), lambda: w.save_distances_array(p["distances.npz"]),
                     lambda: w.save_adjacency_array(p["adjacency.npz"])]
            k = case["n"] % 5
            for save in saves[k:] + saves[:k]:     # the save order varies from grid to grid
                save()
            r = GridReader()
            got = {"array": r.load_full_grid(p["full_array.npy"]), "volumes": r.load_volumes(p["volumes.npy"]),
                   "borders": r.load_borders_array(p["borders.npz"]), "distances": r.load_distances_array(p["distances.npz"]),
                   "adjacency": r.load_adjacency_array(p["adjacency.npz"])}
            fg = w.fg
            want = {"array": np.asarray(fg.get_full_grid_as_array()), "volumes": np.asarray(fg.get_total_volumes()),
                    "borders": fg.get_full_borders(), "distances": fg.get_full_distances(),
                    "adjacency": fg.get_full_adjacency()}
        for k in ("array", "volumes"):
            if got[k].shape != want[k].shape or got[k].dtype != want[k].dtype or not np.array_equal(got[k], want[k]):
                msgs.append(f"{k}: read back differs (shape {want[k].shape}->{got[k].shape}, dtype {want[k].dtype}->{got[k].dtype})")
        for k in ("borders", "distances", "adjacency"):
            diff = sparse_identical(want[k], got[k])
            if diff:
                msgs.append(f"{k}: {diff}")
        n = len(want["array"])
        if got["volumes"].shape != (n,) or got["borders"].shape != (n, n):
            msgs.append("saved shapes inconsistent with the grid size")
        # what was read belongs to the caller: writing another grid to the same paths afterwards (the scripts reuse their
        # output names) must not change the arrays that were read before
        if not msgs:
            with quiet():
                w2 = GridWriter(case["b"], case["o"], T_ALT.get(case["t"], "[0.77]"), factor=case["factor"],
                                position_grid_cartesian=case["cartesian"])
                w2.save_full_grid(p["full_array.npy"])
                w2.save_volumes(p["volumes.npy"])
                w2.save_borders_array(p["borders.npz"])
                w2.save_distances_array(p["distances.npz"])
                w2.save_adjacency_array(p["adjacency.npz"])
            for k in ("array", "volumes"):
                if not np.array_equal(np.asarray(got[k]), want[k]):
                    msgs.append(f"{k}: the array read earlier changed its values when another grid was saved to the same path")
            for k in ("borders", "distances", "adjacency"):
                if sparse_identical(want[k], got[k]):
                    msgs.append(f"{k}: the matrix read earlier changed when another grid was saved to the same path")
        # the three matrices are written by three different writer methods: each file must hold its own quantity
        if n > 1 and got["borders"].nnz and got["distances"].nnz:
            if got["borders"].shape == got["distances"].shape and np.array_equal(got["borders"].toarray(), got["distances"].toarray()) \
                    and not np.array_equal(want["borders"].toarray(), want["distances"].toarray()):
                msgs.append("borders file holds the distances")
    except Exception as e:
        msgs.append(f"exception {type(e).__name__}: {e}")
    finally:
        shutil.rmtree(d, ignore_errors=True)
    return msgs


def _grid_one(case):
    res = Result()
    msgs = judge_grid(case)
    res.case(sample=case, nontrivial=case["n"] > 1, key=case,
             classes=["grid", "cartesian" if case["cartesian"] else "spherical"])
    if msgs:
        res.violation(case, "; ".join(msgs))
    return res


# ----------------------------------------------------------------------------------------------------------------------
# energy tables
# ----------------------------------------------------------------------------------------------------------------------

def render_xvg(case):
    lines = []
    for c in case["hash_lines"]:
        lines.append("#" + c)
    lines += case["at_lines"]
    for row in case["rows"]:
        lines.append(case["lead"] + case["gap"].join(row))
    return "\n".join(lines) + "\n"


def judge_xvg(case):
    import pandas as pd
    from molgri.io import EnergyReader
    d = tempfile.mkdtemp(prefix="c20-")
    msgs = []
    try:
        path = os.path.join(d, "energy.xvg")
        with open(path, "w") as f:
            f.write(render_xvg(case))
        legends = case["legends"]
        want = np.array([[float(tok) for tok in row] for row in case["rows"]], dtype=float)
        with quiet():
            er = EnergyReader(path)
            df = er.load_energy()
        cols = ["Time [ps]"] + legends
        if list(df.columns) != cols:
            return [f"columns {list(df.columns)} != {cols}"]
        if df.shape != want.shape:
            return [f"frame shape {df.shape} != {want.shape} (rows x (1+legends))"]
        got = np.array(df.to_numpy(dtype=float))      # an independent copy: df is edited in place further down
        if not np.array_equal(got, want):
            i, j = np.argwhere(got != want)[0]
            return [f"value at row {i}, column {cols[j]!r}: {got[i, j]!r} != {want[i, j]!r} (token {case['rows'][i][j]!r})"]
        for j, name in enumerate(legends):
            with quiet():
                col = er.load_single_energy_column(name)
            if not np.array_equal(np.asarray(col, dtype=float), want[:, j + 1]):
                msgs.append(f"single column {name!r} differs from the frame column / row order")
                break
        # what was read belongs to the caller: it shifts a column to its minimum, re-sorts and trims the frame in place - a
        # later read from the same reader still returns what the file holds
        if not msgs:
            with quiet():
                handed_col = er.load_single_energy_column(legends[-1])
                try:
                    handed_col -= 1.0 + np.abs(handed_col).max()
                except (ValueError, TypeError):
                    pass          # a read-only or non-array result cannot be edited: nothing to leak
                df.sort_values(by=cols[-1], ascending=False, inplace=True, kind="stable")
                df.iloc[:, 1] = -7.0
                if len(cols) > 2:
                    df.drop(columns=[cols[1]], inplace=True)
                df2 = er.load_energy()
                col2 = er.load_single_energy_column(legends[-1])
            if list(df2.columns) != cols or df2.shape != want.shape or not np.array_equal(df2.to_numpy(dtype=float), want):
                msgs.append("a second load_energy() on the same reader differs from the file after the caller edited the first frame in place")
            elif not np.array_equal(np.asarray(col2, dtype=float), want[:, -1]):
                msgs.append(f"a second load_single_energy_column({legends[-1]!r}) on the same reader differs from the file after the "
                            f"caller edited the first result in place")
            with quiet():
                df = er.load_energy()
        csv = os.path.join(d, "energy.csv")
        df.to_csv(csv)
        with quiet():
            back = EnergyReader(csv).load_energy()
        if list(back.columns) != cols or back.shape != df.shape or not np.array_equal(back.to_numpy(dtype=float), got):
            msgs.append("csv round trip changes the table")
    except Exception as e:
        msgs.append(f"exception {type(e).__name__}: {e}")
    finally:
        shutil.rmtree(d, ignore_errors=True)
    return msgs


def _xvg_shard(arg):
    shard, n_examples = arg
    from hypothesis import given, strategies as st

    legend_text = st.text(alphabet=st.characters(min_codepoint=32, max_codepoint=126, blacklist_characters='"'),
                          min_size=1, max_size=24).filter(lambda s: len(s.strip()) > 0 and s != "Time [ps]")
    gromacs_names = st.sampled_from(["LJ (SR)", "Disper. corr.", "Coulomb (SR)", "Potential", "Pres. DC (bar)", "Pressure",
                                     "Constr. rmsd", "Kinetic En.", "Total Energy", "Temperature", "Bond", "Angle"])

    @st.composite
    def number_token(draw):
        # GROMACS writes %f-style numbers: a decimal with up to 9 integer-mantissa digits and 0..6 decimals,
        # optionally re-spelled in %g style (<= 12 significant digits, moderate exponents)
        k = draw(st.integers(0, 6))
        m = draw(st.integers(-10 ** 9, 10 ** 9))
        x = m / 10 ** k
        style = draw(st.sampled_from(["f", "f", "f", "%.10g", "%.12g"]))
        if style == "f":
            return f"{x:.{k}f}"
        return style % x

    @st.composite
    def cases(draw):
        n_hash = draw(st.integers(0, 13))
        K = draw(st.integers(1, 10))
        legends = draw(st.lists(st.one_of(gromacs_names, legend_text), min_size=K, max_size=K, unique=True))
        if K >= 2 and draw(st.integers(0, 3)) == 0:
            # group-energy legends that differ only in capitalisation or surrounding blanks (Lig-SOL / LIG-SOL): distinct names
            src = draw(st.integers(0, K - 1))
            variants = [v for v in (legends[src].upper(), legends[src].lower(), legends[src].swapcase(), " " + legends[src],
                                    legends[src] + " ") if v not in legends and v != "Time [ps]"]
            if variants:
                dst = draw(st.integers(0, K - 1).filter(lambda i: i != src))
                legends[dst] = draw(st.sampled_from(variants))
        other_at = ['@    title "GROMACS Energies"', '@    xaxis  label "Time (ps)"', '@    yaxis  label "(kJ/mol)"',
                    "@TYPE xy", "@ view 0.15, 0.15, 0.75, 0.85", "@ legend on", "@ legend box on",
                    "@ legend loctype view", "@ legend 0.78, 0.8", "@ legend length 2"]
        n_other = draw(st.integers(max(0, 13 - n_hash - K), max(0, 13 - n_hash - K) + 6))
        at_lines = [other_at[i % len(other_at)] for i in range(n_other)]
        leg_lines = [f'@ s{i} legend "{txt}"' for i, txt in enumerate(legends)]
        if draw(st.booleans()):
            at_lines = at_lines + leg_lines
        else:  # legends in the middle of the other @ lines (order among legends kept)
            cut = draw(st.integers(0, len(at_lines)))
            at_lines = at_lines[:cut] + leg_lines + at_lines[cut:]
        n_rows = draw(st.integers(1, 60))
        rows = [[draw(number_token()) for _ in range(K + 1)] for _ in range(n_rows)]
        return {"hash_lines": [" comment %d" % i for i in range(n_hash)], "at_lines": at_lines, "legends": legends,
                "rows": rows, "lead": draw(st.sampled_from(["", " ", "    "])), "gap": draw(st.sampled_from([" ", "  ", "\t", "    "]))}

    def builder(res, fail):
        @given(cases())
        def test(case):
            msgs = judge_xvg(case)
            n_header = len(case["hash_lines"]) + len(case["at_lines"])
            nontrivial = len(case["legends"]) >= 2 and len(case["rows"]) >= 2 and n_header != 13
            res.case(sample={"text": render_xvg(case)[:1500]}, nontrivial=nontrivial, key=case,
                     classes=["xvg", f"hash_lines={len(case['hash_lines'])}", "header_exactly_13" if n_header == 13 else "header_gt_13",
                              f"legends={len(case['legends'])}"])
            if msgs:
                fail(case, "; ".join(msgs))
        return test

    res = Result()
    run_hypothesis(builder, res, shard, n_examples)
    return res


# ---- atheris adapters (thorough tier): structured xvg files inside the stated envelope ---------------------------------

def fuzz_decode(fdp):
    n_hash = fdp.ConsumeIntInRange(0, 13)
    K = fdp.ConsumeIntInRange(1, 10)
    legends = []
    for i in range(K):
        txt = fdp.ConsumeUnicodeNoSurrogates(12)
        txt = "".join(ch for ch in txt if 32 <= ord(ch) <= 126 and ch != '"')
        if not txt.strip() or txt in legends or txt == "Time [ps]":
            txt = f"series {i}" + " " * fdp.ConsumeIntInRange(0, 2)
        legends.append(txt)
    if len(set(legends)) != len(legends):
        return None
    other = ['@    title "GROMACS Energies"', "@TYPE xy", "@ legend on", "@ view 0.15, 0.15, 0.75, 0.85", "@ legend box on"]
    n_other = max(0, 13 - n_hash - K) + fdp.ConsumeIntInRange(0, 5)
    at_lines = [other[i % len(other)] for i in range(n_other)]
    cut = fdp.ConsumeIntInRange(0, len(at_lines))
    at_lines = at_lines[:cut] + [f'@ s{i} legend "{t}"' for i, t in enumerate(legends)] + at_lines[cut:]
    rows = []
    for _ in range(fdp.ConsumeIntInRange(1, 12)):
        row = []
        for _ in range(K + 1):
            k = fdp.ConsumeIntInRange(0, 6)
            m = fdp.ConsumeIntInRange(-10 ** 9, 10 ** 9)
            x = m / 10 ** k
            row.append(f"{x:.{k}f}" if fdp.ConsumeIntInRange(0, 2) else "%.10g" % x)
        rows.append(row)
    return {"hash_lines": [" c%d" % i for i in range(n_hash)], "at_lines": at_lines, "legends": legends, "rows": rows,
            "lead": ["", " ", "    "][fdp.ConsumeIntInRange(0, 2)], "gap": [" ", "  ", "\t"][fdp.ConsumeIntInRange(0, 2)]}


def fuzz_judge(case):
    return judge_xvg(case)


def fuzz_nontrivial(case):
    return len(case["legends"]) >= 2 and len(case["rows"]) >= 2 and len(case["hash_lines"]) + len(case["at_lines"]) != 13


def replay(case):
    if "rows" in case:
        return judge_xvg(case)
    return judge_grid(case)


def run(tier):
    specs = []
    if tier == "quick":
        b_opts, o_opts = ["zero4D_1", "cube4D_4", "randomQ_6", "cube4D_9"], ["zero3D_1", "ico_4", "cube3D_7", "randomS_12"]
        n_xvg = 3200
    else:
        b_opts = ["zero4D_1", "cube4D_2", "cube4D_4", "randomQ_5", "randomQ_8", "cube4D_9", "cube4D_16", "randomQ_20"]
        o_opts = ["zero3D_1", "ico_2", "ico_4", "ico_12", "cube3D_5", "cube3D_8", "randomS_7", "randomS_15", "ico_25"]
        n_xvg = 48000
    t_opts = [("[0.2]", 1), ("[0.1, 0.3]", 2), ("linspace(0.2, 0.6, 3)", 3)]
    for b, o, (t, nt), cart in itertools.product(b_opts, o_opts, t_opts, (False, True)):
        n_o = int(o.split("_")[1])
        if cart and n_o < 4:
            continue
        n = int(b.split("_")[1]) * n_o * nt
        specs.append({"b": b, "o": o, "t": t, "cartesian": cart, "factor": [2, 1, 0.5, 3.5][len(specs) % 4], "n": n})
    results = pmap(_grid_one, specs)
    results += pmap(_xvg_shard, [(s, n_xvg // 16) for s in range(16)])
    res = merge_results(results)
    if tier == "thorough":
        from vlib.core import run_fuzz_campaign
        res.merge(run_fuzz_campaign("C20", runs=160000, shards=16))
    rule = (f"grids: {len(specs)} specifications (rotation grids {b_opts} x direction grids {o_opts} x 1..3 radii x both "
            f"position modes, four factors) written and read back, then a second grid of the same size written to the same paths while the first read results are held; energy tables: Hypothesis-generated xvg texts with 0..13 '#' "
            f"lines, enough '@' lines for >=13 header lines, 1..10 distinct legends (GROMACS names and arbitrary printable "
            f"text without quotes), 1..60 rows of decimals with <=9 mantissa digits and 0..6 decimals in %f/%.10g/%.12g spellings, random padding. Non-trivial = grid with "
            f">1 cell; xvg with >=2 legends, >=2 rows and a header longer than 13 lines; distinct = distinct input.")
    return res, rule, {"assumptions": [
        "values carry <=12 significant digits (GROMACS writes %f-style numbers): pandas' default float parser is bit-exact there, "
        "off by one ulp on ~10 % of 15-digit tokens, which is parser precision and not a row/column mix-up",
        "legend texts are not blank, distinct and contain no double quote or newline (leading/trailing spaces allowed)"]}
