"""
C18  Polytope subdivision produces exactly the lattice points of the solid's surface.

Hypothesis rule-based state machine over one polytope object: rules divide / get_nodes / get_half_of_hypercube with
generated arguments; model = exact lattice of the current level built from integers (cube, hypercube) or from an
independent vertex/face table (icosahedron) plus every array returned so far. Invariants after every step.
"""
import itertools

import numpy as np
from scipy.spatial import cKDTree

from vlib.core import Result, pmap, merge_results, run_hypothesis, quiet

GOLDEN = (1 + 5 ** 0.5) / 2
MAX_LEVEL = {"ico": 4, "cube3D": 4, "cube4D": 2}


# ----------------------------------------------------------------------------------------------------------------------
# exact lattices
# ----------------------------------------------------------------------------------------------------------------------

def cube_lattice(d, k):
    """Boundary points of the 2^k-per-edge lattice of the cube [-s/2, s/2]^d inscribed in the unit sphere."""
    f = 2 ** k
    side = 2 / np.sqrt(d)
    grid = np.array([p for p in itertools.product(range(f + 1), repeat=d) if (0 in p) or (f in p)], dtype=float)
    return (grid / f - 0.5) * side


def ico_vertices_faces():
    verts = []
    for a, b in itertools.product((-1, 1), repeat=2):
        verts += [(0, a * 1, b * GOLDEN), (a * 1, b * GOLDEN, 0), (b * GOLDEN, 0, a * 1)]
    V = np.array(verts, dtype=float)
    V /= np.linalg.norm(V, axis=1)[:, None]
    edge = np.sort(np.linalg.norm(V[0] - V[1:], axis=1))[0]
    faces = [t for t in itertools.combinations(range(12), 3)
             if all(abs(np.linalg.norm(V[i] - V[j]) - edge) < 1e-9 for i, j in itertools.combinations(t, 2))]
    assert len(faces) == 20
    return V, faces


def ico_lattice(k):
    V, faces = ico_vertices_faces()
    f = 2 ** k
    pts = []
    for a, b, c in faces:
        for i in range(f + 1):
            for j in range(f + 1 - i):
                pts.append((i * V[a] + j * V[b] + (f - i - j) * V[c]) / f)
    pts = np.array(pts)
    _, idx = np.unique(np.round(pts, 9), axis=0, return_index=True)
    return pts[np.sort(idx)]


def lattice(kind, k):
    if kind == "ico":
        return ico_lattice(k)
    return cube_lattice(3 if kind == "cube3D" else 4, k)


_LAT = {}


def lattice_cached(kind, k):
    if (kind, k) not in _LAT:
        _LAT[(kind, k)] = lattice(kind, k)
    return _LAT[(kind, k)]


def same_point_set(A, B, atol=1e-9):
    """Perfect matching between two point sets."""
    if len(A) != len(B):
        return f"{len(A)} points, lattice has {len(B)}"
    d, idx = cKDTree(B).query(A, k=1)
    if d.max() > atol:
        return f"point {A[int(np.argmax(d))].tolist()} is {d.max():.3g} away from the nearest lattice point"
    if len(np.unique(idx)) != len(B):
        return "some lattice point is produced twice / another is missing"
    return None


def self_test():
    problems = []
    for kind, counts in (("ico", (12, 42, 162, 642)), ("cube3D", (8, 26, 98, 386)), ("cube4D", (16, 80, 544))):
        for k, c in enumerate(counts):
            L = lattice(kind, k)
            if len(L) != c:
                problems.append(f"{kind} level {k}: oracle lattice has {len(L)} points, closed form {c}")
            if kind != "ico" and abs(np.abs(L).max() * np.sqrt(L.shape[1]) - 1) > 1e-12:
                problems.append(f"{kind}: lattice not inscribed")
    V, _ = ico_vertices_faces()
    if np.abs(np.linalg.norm(V, axis=1) - 1).max() > 1e-12:
        problems.append("ico vertices not unit")
    return problems


# ----------------------------------------------------------------------------------------------------------------------
# the real object + model
# ----------------------------------------------------------------------------------------------------------------------

class Poly:
    def __init__(self, kind):
        from molgri.space.polytopes import IcosahedronPolytope, Cube3DPolytope, Cube4DPolytope
        self.kind = kind
        with quiet():
            self.obj = {"ico": IcosahedronPolytope, "cube3D": Cube3DPolytope, "cube4D": Cube4DPolytope}[kind]()
        self.level = 0
        self.seen = {False: [], True: []}       # full get_nodes results so far, by projection flag
        self.seen_half = {False: [], True: []}
        self.ops = []
        self.getter_levels = set()
        self.observer_exceptions = []

    def step(self, op):
        self.ops.append(op)
        try:
            return self._step(op)
        except AssertionError as e:
            return [f"{op}: AssertionError inside the library: {e}"]
        except Exception as e:
            if op["op"] in ("nodes", "half") and op.get("N") is not None and op["N"] > op.get("_avail", 10 ** 9) \
                    and isinstance(e, ValueError):
                return []
            return [f"{op}: {type(e).__name__}: {e}"]

    def _counts(self):
        return [len(lattice_cached(self.kind, j)) for j in range(self.level + 1)]

    def _step(self, op):
        msgs = []
        if op["op"] == "divide":
            with quiet():
                self.obj.divide_edges()
            self.level += 1
            return msgs
        if op["op"] == "observe":
            # the other public read-only getters (used by the plots and the grid builders). Their results are not judged
            # here, and an exception of theirs is not a C18 matter - but they must leave the polytope as it was, which
            # the node checks of the following steps decide.
            try:
                with quiet():
                    self._observe(op["what"], op.get("arg", 0))
            except Exception as e:
                self.observer_exceptions.append(f"{op['what']}: {type(e).__name__}")
            return msgs
        proj = bool(op.get("projection"))
        N = op.get("N")
        if N is not None:   # the same count passed as a python int or as a numpy integer
            N = {0: int, 1: np.int64, 2: np.int32, 3: np.intp}[op.get("N_form", 0)](N)
        lat = lattice_cached(self.kind, self.level)
        if op["op"] == "nodes":
            avail = len(lat)
            op["_avail"] = avail
            with quiet():
                full = np.asarray(self.obj.get_nodes(projection=proj))
                part = np.asarray(self.obj.get_nodes(N=N, projection=proj)) if N is not None else full
            self.getter_levels.add(self.level)
            if N is not None:
                if N > avail:
                    return [f"get_nodes(N={N}) returned {len(part)} rows although only {avail} nodes exist (ValueError expected)"]
                if part.shape != (N, full.shape[1]) and N > 0 or not np.array_equal(part, full[:N]):
                    msgs.append(f"get_nodes(N={N}) is not the first N rows of get_nodes()")
            raw = np.asarray(self.obj.get_nodes(projection=False)) if proj else full
            if proj:
                want = raw / np.linalg.norm(raw, axis=1)[:, None]
                if np.abs(full - want).max() > 1e-12:
                    msgs.append(f"projection differs from node/|node| by {np.abs(full - want).max():.3g}")
            else:
                diff = same_point_set(full, lat)
                if diff:
                    msgs.append(f"{self.kind} level {self.level}: node set is not the lattice: {diff}")
                else:
                    neg = same_point_set(-full, full, atol=1e-12)
                    if neg:
                        msgs.append(f"node set not closed under negation: {neg}")
                    # level of every row must be non-decreasing: rows [c_{j-1}, c_j) are the new points of level j
                    counts = self._counts()
                    lo = 0
                    for j, c in enumerate(counts):
                        d = same_point_set(full[:c], lattice_cached(self.kind, j))
                        if d:
                            msgs.append(f"rows [0,{c}) are not exactly the level-{j} lattice: {d}")
                            break
                        lo = c
            for earlier in self.seen[proj]:
                if len(earlier) > len(full) or not np.array_equal(full[:len(earlier)], earlier):
                    msgs.append(f"an earlier get_nodes(projection={proj}) result ({len(earlier)} rows) is no longer a bit-exact prefix")
                    break
            self.seen[proj].append(full.copy())
            return msgs
        if op["op"] == "half":
            avail = len(lat) // 2
            op["_avail"] = avail
            with quiet():
                full = np.asarray(self.obj.get_half_of_hypercube(projection=proj))
                part = np.asarray(self.obj.get_half_of_hypercube(projection=proj, N=N)) if N is not None else full
                nodes = np.asarray(self.obj.get_nodes(projection=proj))
            self.getter_levels.add(self.level)
            if N is not None:
                if N > avail:
                    return [f"get_half_of_hypercube(N={N}) returned {len(part)} rows although only {avail} exist"]
                if not np.array_equal(part, full[:N]):
                    msgs.append(f"get_half_of_hypercube(N={N}) is not the first N rows of the full selection")
            if len(full) != avail:
                msgs.append(f"half selection has {len(full)} rows, expected {avail} (one per antipodal pair)")
            else:
                # exactly one of every antipodal pair: the selection and its negation together are the node set
                both = np.vstack([full, -full])
                d = same_point_set(both, nodes, atol=1e-12)
                if d:
                    msgs.append(f"half selection + its antipodes is not the node set: {d}")
                # in index order: a subsequence of get_nodes
                tree = cKDTree(nodes)
                dist, idx = tree.query(full, k=1)
                if dist.max() > 0:
                    msgs.append("half selection rows are not bit-identical to node rows")
                elif np.any(np.diff(idx) <= 0):
                    msgs.append("half selection is not in index order")
            for earlier in self.seen_half[proj]:
                if len(earlier) > len(full) or not np.array_equal(full[:len(earlier)], earlier):
                    msgs.append("an earlier half selection is no longer a bit-exact prefix")
                    break
            self.seen_half[proj].append(full.copy())
            return msgs
        raise ValueError(op)

    def _observe(self, what, arg):
        o = self.obj
        n = o.G.number_of_nodes()
        # the optional flags of the getters are part of the public interface: every combination is exercised
        four = self.kind == "cube4D"
        if what == "adjacency":
            if four:
                o.get_polytope_adj_matrix(include_opposing_neighbours=bool(arg % 2), only_half_of_cube=bool((arg // 2) % 2))
            else:
                o.get_polytope_adj_matrix() if arg % 2 else o.get_polytope_adj_matrix(only_nodes=list(o.G.nodes)[: 3 + arg % 9])
        elif what == "cdist":
            if four:
                o.get_cdist_matrix(only_half_of_cube=bool(arg % 2), N=None if (arg // 2) % 2 else 5 + arg % 30)
            else:
                o.get_cdist_matrix() if arg % 2 else o.get_cdist_matrix(only_nodes=list(o.G.nodes)[: 3 + arg % 9])
        elif what == "neighbours":
            idx = arg % max(1, n // (2 if four else 1))
            if four:
                o.get_neighbours_of(idx, include_opposing_neighbours=bool(arg % 2), only_half_of_cube=bool((arg // 2) % 2))
            else:
                o.get_neighbours_of(idx)
        elif what == "edges":
            list(o.get_edges_of_categories())
        elif what == "str":
            str(o)
        elif what == "cells" and self.kind == "cube4D":
            cells = o.get_all_cells() if arg % 2 == 0 else o.get_all_cells(include_only=list(o.G.nodes)[: 8 + arg % 40])
            for c in cells[: 1 + arg % 3]:
                c.get_nodes(projection=bool(arg % 2))
        elif what == "element_graph":
            from molgri.space.polytopes import PolyhedronFromG
            pts = np.asarray(o.get_nodes(projection=True))[: [8, 12, 26, 42, 5, 16][arg % 6]]
            reduced, _ = o.get_N_element_graph(pts)
            PolyhedronFromG(reduced).get_nodes()

    def nontrivial(self):
        return len(self.getter_levels) >= 2


def clean_ops(ops):
    return [{k: v for k, v in op.items() if not k.startswith("_")} for op in ops]


def run_ops(kind, ops):
    p = Poly(kind)
    for op in ops:
        msgs = p.step(dict(op))
        if msgs:
            return msgs, p
    return [], p


def _machine_shard(arg):
    shard, n_examples, steps, max_levels = arg
    from hypothesis import strategies as st
    from hypothesis.stateful import RuleBasedStateMachine, rule, initialize, precondition

    def builder(res, fail):
        class Subdivision(RuleBasedStateMachine):
            def __init__(self):
                super().__init__()
                self.p = None

            @initialize(kind=st.sampled_from(["ico", "cube3D", "cube4D", "ico", "cube3D"]))
            def init(self, kind):
                self.p = Poly(kind)

            def _do(self, op):
                msgs = self.p.step(op)
                if msgs:
                    fail({"kind": self.p.kind, "ops": clean_ops(self.p.ops)}, "; ".join(msgs))

            @precondition(lambda self: self.p is not None and self.p.level < max_levels[self.p.kind])
            @rule(probe=st.sampled_from([None, False, True]))
            def divide(self, probe):
                if probe is not None:  # look at the nodes right before dividing so the cache path is exercised
                    self._do({"op": "nodes", "projection": probe, "N": None})
                self._do({"op": "divide"})

            @precondition(lambda self: self.p is not None)
            @rule(projection=st.booleans(), frac=st.one_of(st.none(), st.floats(0, 1.2)), form=st.integers(0, 3))
            def get_nodes(self, projection, frac, form):
                avail = len(lattice_cached(self.p.kind, self.p.level))
                N = None if frac is None else int(round(frac * avail))
                self._do({"op": "nodes", "projection": projection, "N": N, "N_form": form})

            @precondition(lambda self: self.p is not None and self.p.kind == "cube4D")
            @rule(projection=st.booleans(), frac=st.one_of(st.none(), st.floats(0, 1.2)), form=st.integers(0, 3))
            def get_half(self, projection, frac, form):
                avail = len(lattice_cached(self.p.kind, self.p.level)) // 2
                N = None if frac is None else int(round(frac * avail))
                self._do({"op": "half", "projection": projection, "N": N, "N_form": form})

            @precondition(lambda self: self.p is not None)
            @rule(what=st.sampled_from(["adjacency", "cdist", "neighbours", "edges", "str", "cells", "cells", "element_graph"]),
                  arg=st.integers(0, 1000))
            def observe(self, what, arg):
                if what == "cells" and self.p.kind != "cube4D":
                    what = "adjacency"
                if len(lattice_cached(self.p.kind, self.p.level)) > 200 and what != "edges":
                    what = "str"   # seconds-long on large node sets; the lower levels carry the history
                self._do({"op": "observe", "what": what, "arg": arg})

            def teardown(self):
                if self.p is not None and self.p.ops:
                    case = {"kind": self.p.kind, "ops": clean_ops(self.p.ops)}
                    res.case(sample=case, nontrivial=self.p.nontrivial(), key=case,
                             classes=[f"kind={self.p.kind}", f"reached_level={self.p.level}"]
                             + (["getter_before_and_after_division"] if self.p.nontrivial() else [])
                             + (["other_getter_before_a_division"] if any(
                                 o["op"] == "observe" and any(q["op"] == "divide" for q in self.p.ops[i:])
                                 for i, o in enumerate(self.p.ops)) else [])
                             + [f"observer_exception:{x}" for x in sorted(set(self.p.observer_exceptions))])
        return Subdivision

    res = Result()
    run_hypothesis(builder, res, shard, n_examples, stateful=True, step_count=steps, shrink=False)
    return res


def _fixed_history(arg):
    kind, top = arg[0], arg[1]
    observers = len(arg) > 2 and arg[2]
    res = Result()
    ops = []
    for lv in range(top + 1):
        if observers and len(lattice_cached(kind, lv)) <= 200:
            ops += [{"op": "observe", "what": w, "arg": a} for w in
                    (["cells"] if kind == "cube4D" else []) + ["adjacency", "cdist", "neighbours", "edges", "str", "element_graph"]
                    for a in ((0, 1, 2, 3) if w in ("adjacency", "cdist", "neighbours") else (lv,))]
        ops += [{"op": "nodes", "projection": False, "N": None}, {"op": "nodes", "projection": True, "N": None},
                {"op": "nodes", "projection": False, "N": 5, "N_form": 1 + lv % 3}, {"op": "nodes", "projection": True, "N": 7, "N_form": lv % 4}]
        if kind == "cube4D":
            ops += [{"op": "half", "projection": False, "N": None}, {"op": "half", "projection": True, "N": 5}]
        if lv < top:
            ops.append({"op": "divide"})
    msgs, p = run_ops(kind, ops)
    case = {"kind": kind, "ops": clean_ops(p.ops)}
    res.case(sample=case, nontrivial=True, key=case, classes=[f"kind={kind}", f"reached_level={p.level}", "fixed_full_history",
                                                              "getter_before_and_after_division"]
             + (["other_getter_before_a_division"] if observers else [])
             + [f"observer_exception:{x}" for x in sorted(set(p.observer_exceptions))])
    if msgs:
        res.violation(case, "; ".join(msgs))
    return res


def _fixed_ops(kind, top, observers):
    ops = []
    for lv in range(top + 1):
        if observers and len(lattice_cached(kind, lv)) <= 200:
            ops += [{"op": "observe", "what": w, "arg": lv} for w in
                    (["cells"] if kind == "cube4D" else []) + ["element_graph", "adjacency", "str"]]
        ops += [{"op": "nodes", "projection": False, "N": None}, {"op": "nodes", "projection": True, "N": None}]
        if kind == "cube4D":
            ops.append({"op": "half", "projection": True, "N": None})
        if lv < top:
            ops.append({"op": "divide"})
    return ops


def _session(seq):
    """Several polytope objects used one after the other in one (fresh) worker process - as the plotting code does with the
    hypercube, its eight cells and the 3D polytopes: what one object returns does not depend on the other objects."""
    res = Result()
    before = []
    for kind, top, observers in seq:
        ops = _fixed_ops(kind, top, observers)
        msgs, p = run_ops(kind, ops)
        case = {"kind": kind, "ops": clean_ops(p.ops), "session_before": [list(x) for x in before]}
        res.case(sample=case, nontrivial=True, key=case, classes=[f"kind={kind}", "cross_object_session",
                                                                  "getter_before_and_after_division"])
        if msgs:
            res.violation(case, "; ".join(msgs) + f" (objects used before in this process: {before})")
        before.append((kind, top, observers))
    return res


def replay(case):
    for kind, top, observers in case.get("session_before", []):       # reproduce the process history
        run_ops(kind, _fixed_ops(kind, top, observers))
    return run_ops(case["kind"], case["ops"])[0]


def run(tier):
    if tier == "quick":
        max_levels = {"ico": 3, "cube3D": 3, "cube4D": 1}
        shards, per, steps = 16, 10, 12
        fixed = [("cube4D", 2), ("ico", 4), ("cube3D", 4)]
    else:
        max_levels = dict(MAX_LEVEL)
        shards, per, steps = 16, 20, 14
        fixed = [("cube4D", 2), ("ico", 4), ("cube3D", 4)]
    fixed = fixed + [(k, top, True) for k, top in fixed]
    sessions = [[("cube4D", 1, True), ("cube3D", 2, False), ("ico", 2, False)], [("cube4D", 0, True), ("ico", 1, True), ("cube3D", 1, True)],
                [("ico", 2, True), ("cube3D", 2, True), ("cube4D", 1, True)], [("cube3D", 1, True), ("cube4D", 1, True), ("cube3D", 2, False), ("ico", 1, False)]]
    results = pmap(_session, sessions)      # first: every session starts in a freshly forked worker
    results += pmap(_fixed_history, fixed) + pmap(_machine_shard, [(s, per, steps, max_levels) for s in range(shards)])
    res = merge_results(results)
    res.violations.sort(key=lambda v: len(v["case"]["ops"]))
    rule = (f"Hypothesis state machine over one polytope (ico / cube3D / cube4D): rules divide (to level {max_levels}), "
            f"get_nodes(N, projection) with N from none / 0..1.2x the node count, get_half_of_hypercube(N, projection), observe (the other public read-only getters: adjacency, distance matrix, "
            f"neighbours, edge categories, str, the eight cells of the hypercube, N-element graph; results not judged, they must leave the polytope unchanged); "
            f"plus two fixed histories per polytope calling every node getter at every level up to ico 4 / cube3D 4 / cube4D 2, one of them with every observer at every level of <= 200 nodes. "
            f"plus four cross-object sessions (hypercube with its cells, cube and icosahedron used one after the other in one fresh process, in different orders). "
            f"Non-trivial history = a getter call before and after a division (cache path); distinct = distinct operation sequence.")
    return res, rule, {"assumptions": ["levels beyond ico 4 / cube3D 4 / hypercube 2 are outside the exploration bound"]}
