"""
C04  Rotation-grid neighbour relations are correct on SO(3) = S^3 modulo sign.

Generator: (algorithm, N) for cube4D and randomQ - every small N plus seeded larger N (quick), every N to the bound
(thorough). Oracle (first principles, vlib.geom): candidate pairs = hull edges of the 2N double cover (sound superset);
each candidate decided by an LP margin in the bisector hyperplane, face area by gnomonic half-plane clipping; fold by
rotation index; distance = arccos|q_a.q_b|.
"""
import numpy as np

from vlib.core import Result, pmap, merge_results, SEED, quiet
from vlib import geom
from vlib.grids import scribble, fresh_sphere_grid, dense

YES, NO = 1e-7, 1e-12


def self_test():
    return geom.s3_self_test()


def judge(case):
    alg, N = case["alg"], case["N"]
    info = {"undecided": 0, "pairs_with_0": 0, "pairs_only_via_antipode": 0, "pairs_two_faces": 0, "pairs": 0}
    try:
        g = fresh_sphere_grid(alg, N)
        with quiet():
            Q = np.asarray(g.get_grid_as_array(only_upper=False))
            adj = g.get_voronoi_adjacency()
            bor = g.get_cell_borders()
            dis = g.get_center_distances()
    except Exception as e:
        return [f"{alg}_{N}: getter raised {type(e).__name__}: {e}"], info
    A, B, D = dense(adj).astype(float), dense(bor).astype(float), dense(dis).astype(float)
    msgs = []
    if A.shape != (N, N) or B.shape != (N, N) or D.shape != (N, N):
        return [f"{alg}_{N}: shapes {A.shape} {B.shape} {D.shape}, expected {(N, N)}"], info
    if not (np.isfinite(B).all() and np.isfinite(D).all()):
        msgs.append(f"{alg}_{N}: non-finite entries")
    for name, M in (("adjacency", A), ("borders", B), ("distances", D)):
        if np.diag(M).any():
            msgs.append(f"{alg}_{N}: {name} has a non-empty diagonal")
        if not np.allclose(M, M.T, rtol=1e-9, atol=1e-12):
            i, j = np.argwhere(~np.isclose(M, M.T, rtol=1e-9, atol=1e-12))[0]
            msgs.append(f"{alg}_{N}: {name} not symmetric: ({i},{j}) = {M[i, j]!r}, ({j},{i}) = {M[j, i]!r}")
    lib_adj = A != 0
    if not (np.array_equal(B != 0, lib_adj) and np.array_equal(D != 0, lib_adj)):
        msgs.append(f"{alg}_{N}: the three matrices do not share one sparsity pattern "
                    f"(nnz {int(lib_adj.sum())}/{int((B != 0).sum())}/{int((D != 0).sum())})")
    # oracle
    faces = {}       # (a,b) a<b rotation pair -> list of (i, j, area) for existing faces
    grey = set()
    for (i, j) in geom.s3_candidate_pairs(Q):
        if i >= N:          # both in the lower half: mirror image of a pair in the upper half
            continue
        a, b = i % N, j % N
        if a == b:
            continue
        margin, area, nv, status = geom.s3_face(Q, i, j)
        key = (min(a, b), max(a, b))
        if status != "ok" or (NO <= margin <= YES):
            grey.add(key)
            continue
        if margin > YES:
            # (i, j) and its antipodal mirror are one geometric face; distinguish direct (j < N) and via-antipode (j >= N)
            faces.setdefault(key, []).append(("direct" if j < N else "antipode", area))
    info["undecided"] = len(grey)
    want_adj = np.zeros((N, N), dtype=bool)
    for (a, b), fl in faces.items():
        want_adj[a, b] = want_adj[b, a] = True
        kinds = set(k for k, _ in fl)
        info["pairs"] += 1
        if a == 0:
            info["pairs_with_0"] += 1
        if kinds == {"antipode"}:
            info["pairs_only_via_antipode"] += 1
        if len(fl) > 1:
            info["pairs_two_faces"] += 1
    greymask = np.zeros((N, N), dtype=bool)
    for (a, b) in grey:
        greymask[a, b] = greymask[b, a] = True
    wrong = (lib_adj != want_adj) & ~greymask
    np.fill_diagonal(wrong, False)
    if wrong.any():
        i, j = np.argwhere(wrong)[0]
        fl = faces.get((min(i, j), max(i, j)), [])
        msgs.append(f"{alg}_{N}: rotations ({i},{j}) adjacency={bool(lib_adj[i, j])}, but the regions of +-q_{i} and +-q_{j} share "
                    f"{len(fl)} face(s) {fl}; {int(wrong.sum())} wrong entries in total")
    dots = np.abs(np.clip(Q[:N] @ Q[:N].T, -1, 1))
    ang = np.arccos(dots)
    both = lib_adj & want_adj
    if both.any():
        bad = both & (np.abs(D - ang) > 1e-12)
        if bad.any():
            i, j = np.argwhere(bad)[0]
            msgs.append(f"{alg}_{N}: distance ({i},{j}) = {D[i, j]!r}, sign-folded quaternion angle {ang[i, j]!r}")
        if (B[both] <= 0).any():
            msgs.append(f"{alg}_{N}: non-positive border on an adjacent pair")
    for (a, b), fl in faces.items():
        if len(fl) == 1 and lib_adj[a, b]:
            area = fl[0][1]
            for x, y in ((a, b), (b, a)):
                if abs(B[x, y] - area) > 1e-9 + 1e-7 * area:
                    msgs.append(f"{alg}_{N}: border ({x},{y}) = {B[x, y]!r}, but the single shared face ({fl[0][0]}) has area {area!r}")
                    break
            else:
                continue
            break
    try:
        with quiet():
            for handed in (adj, bor, dis):     # the caller edits what it was handed in place (units, masking)
                scribble(handed)
            g.get_spherical_voronoi().get_voronoi_volumes()
            dis2, bor2, adj2 = g.get_center_distances(), g.get_cell_borders(), g.get_voronoi_adjacency()
        if not (np.array_equal(dense(bor2).astype(float), B) and np.array_equal(dense(adj2).astype(float), A)
                and np.array_equal(dense(dis2).astype(float), D)):
            msgs.append(f"{alg}_{N}: asking the same grid again (other getter order, after the volume estimate and after the caller "
                        f"edited the first results in place) changes the matrices")
    except Exception as e:
        msgs.append(f"{alg}_{N}: second round of getters raised {type(e).__name__}: {e}")
    return msgs[:6], info


def _one(case):
    res = Result()
    msgs, info = judge(case)
    res.undecided += info["undecided"]
    classes = [f"alg={case['alg']}"]
    for k in ("pairs_with_0", "pairs_only_via_antipode", "pairs_two_faces"):
        if info[k]:
            classes.append("has_" + k)
        res.extra[k] = info[k]
    res.extra["rotation_pairs_judged_adjacent"] = info["pairs"]
    res.case(sample=dict(case, **info), nontrivial=info["pairs_with_0"] > 0 and info["pairs_only_via_antipode"] > 0, key=case,
             classes=classes)
    if msgs:
        res.violation(case, "; ".join(msgs))
    return res


def replay(case):
    return judge({"alg": case["alg"], "N": case["N"]})[0]


def run(tier):
    rng = np.random.default_rng([SEED, 4])
    cases = []
    if tier == "quick":
        for alg, top in (("cube4D", 60), ("randomQ", 110)):
            ns = set(range(4, 25)) | {40, 41} | set(int(x) for x in rng.integers(25, top, size=5))
            if alg == "randomQ":
                ns |= {84, 101, 150, 280}  # 150: mid-range size; 280: one probe beyond the stated bound (first grids with faces of area < 1e-8)
            cases += [{"alg": alg, "N": n} for n in ns]
    else:
        for alg in ("cube4D", "randomQ"):
            ns = set(range(4, 101)) | set(range(104, 273, 4)) | {224, 225, 271, 272}
            if alg == "randomQ":
                ns |= {275, 280, 300, 320}  # probes beyond the stated bound
            cases += [{"alg": alg, "N": n} for n in ns]
    cases.sort(key=lambda c: -c["N"])
    res = merge_results(pmap(_one, cases))
    res.violations.sort(key=lambda v: v["case"]["N"])
    if res.extra.get("pairs_with_0", 0) == 0 or res.extra.get("pairs_only_via_antipode", 0) == 0:
        res.notes.append("WEAK RUN: no pair involving index 0 / adjacent only through the antipodal copy was explored")
    rule = ("enumeration of (algorithm, N) for cube4D and randomQ: " + ("every N in 4..24, 40, 41, (84, 101, 150 and the beyond-bound probe 280 for randomQ) and 5 seeded "
            "larger N each (to 60 / 110)" if tier == "quick" else "every N in 4..100, every 4th N to 272, 224, 225, 271, 272")
            + "; every rotation pair judged via hull-edge candidates on the 2N double cover. Non-trivial = grid with at least one "
              "adjacent pair involving rotation 0 and at least one pair adjacent only through the antipodal copy; distinct = "
              "distinct (algorithm, N). Grey zone: LP margin in [1e-12, 1e-7] -> pair not judged.")
    return res, rule, {"assumptions": ["hull edges of the double cover are a superset of all pairs sharing a face",
                                       "pairs touching through two faces: only adjacency and a positive border are required"]}
