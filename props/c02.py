"""
C02  Full-grid matrices are the symmetric product of position and rotation geometry.

Generator (Hypothesis): rotation grid (zero4D_1 / cube4D_N / randomQ_N, N>=4), direction grid (zero3D_1 / ico / cube3D /
randomS), 2..5 increasing radii, factor f, position mode. Oracle: (1) structural clauses on the returned matrices,
(2) compositional reference model built from a separately constructed PositionGrid and rotation grid (public getters),
(3) volumes = position volume x rotation volume x f^3 in row order.
"""
import numpy as np

from vlib.core import digest, Result, pmap, merge_results, run_hypothesis, quiet, load_known
from vlib.grids import snapshot, scribble, sphere_grid, full_grid, position_grid, dense

_ROT = {}


def rotation_parts(b_alg, n_b):
    key = (b_alg, n_b)
    if key not in _ROT:
        if n_b == 1:
            _ROT[key] = (np.zeros((1, 1)), np.zeros((1, 1)), np.zeros((1, 1)), np.array([np.pi ** 2]))
        else:
            g = sphere_grid(b_alg, n_b)
            with quiet():
                _ROT[key] = (dense(g.get_voronoi_adjacency()).astype(float), dense(g.get_cell_borders()).astype(float),
                             dense(g.get_center_distances()).astype(float),
                             np.asarray(g.get_spherical_voronoi().get_voronoi_volumes(), dtype=float))
    return _ROT[key]


def names(case):
    b = "zero4D_1" if case["n_b"] == 1 else f"{case['b_alg']}_{case['n_b']}"
    o = "zero3D_1" if case["n_o"] == 1 else f"{case['o_alg']}_{case['n_o']}"
    t = "[" + ", ".join(case["radii"]) + "]"
    return b, o, t


def f8_predicate(case):
    if not case["cartesian"]:
        return None
    _, o, _ = names(case)
    for k in load_known("C02"):
        if o in k["match"]["o_grids"] or case["n_o"] in k["match"].get("n_o", []):
            return k
    return None


def judge(case):
    """list of (tag, message): the grid is judged with its factor and then - same names, same process - with a second
    factor, as a scan over the metric factor would build it."""
    out = judge_one(case, float(case["factor"]))
    if not out and case.get("factor2") is not None:
        # the second factor either on a newly built grid, or - for every other case - assigned to the `factor` attribute of a
        # grid that was built and fully queried with the first factor (re-using the expensive object in a factor scan)
        reassign = int(digest([case.get("order"), case["factor2"]]), 16) % 2 == 1
        label = "same grid object, factor attribute reassigned to" if reassign else "second grid with the same names, factor"
        out = [(tag, f"[{label} {case['factor2']}] " + msg)
               for tag, msg in judge_one(case, float(case["factor2"]), built_with=float(case["factor"]) if reassign else None)]
    return out


def judge_one(case, f, built_with=None):
    b, o, t = names(case)
    n_b, n_o, n_t = case["n_b"], case["n_o"], len(case["radii"])
    n = n_b * n_o * n_t
    out = []
    try:
        fg = full_grid(b, o, t, factor=f if built_with is None else built_with, cartesian=case["cartesian"])
        if built_with is not None:
            with quiet():
                for warm in (fg.get_total_volumes, fg.get_full_adjacency, fg.get_full_borders, fg.get_full_distances):
                    warm()
                try:
                    fg.get_full_prefactors()
                except Exception:
                    pass
            fg.factor = f
        getters = {"adjacency": fg.get_full_adjacency, "borders": fg.get_full_borders, "distances": fg.get_full_distances,
                   "volumes": fg.get_total_volumes, "array": fg.get_full_grid_as_array}
        order = case.get("order") or sorted(getters)
        with quiet():
            raw = {name: getters[name]() for name in order}       # generated getter order ...
            first = {name: snapshot(raw[name]) for name in order}
            # ... then what a caller does with the results: feed the grid's own consumer of these matrices, and edit the
            # objects it was handed in place ...
            try:
                fg.get_full_prefactors()
            except Exception:
                pass
            for name in order:
                scribble(raw[name])
            again = {name: snapshot(getters[name]()) for name in reversed(order)}   # ... and every getter once more
        for d_ in (first, again):
            d_["volumes"] = np.asarray(d_["volumes"], dtype=float)
            d_["array"] = np.asarray(d_["array"])
        adj, bor, dis, vol, arr = first["adjacency"], first["borders"], first["distances"], first["volumes"], first["array"]
        for name in order:
            a, b2 = first[name], again[name]
            a, b2 = (dense(a), dense(b2)) if hasattr(a, "tocoo") else (a, b2)
            if a.shape != b2.shape or not np.array_equal(np.asarray(a, dtype=float), np.asarray(b2, dtype=float)):
                return [("history", f"{name} of the same full grid differ between the first query and a second one made after "
                                    f"get_full_prefactors() and after the caller edited the first results in place (order {order})")]
        pg = position_grid(o, t, cartesian=case["cartesian"])
        with quiet():
            P_adj = dense(pg.get_adjacency_of_position_grid()).astype(float)
            P_bor = dense(pg.get_borders_of_position_grid()).astype(float)
            P_dis = dense(pg.get_distances_of_position_grid()).astype(float)
            P_vol = np.asarray(pg.get_all_position_volumes(), dtype=float)
        R_adj, R_bor, R_dis, R_vol = rotation_parts(case["b_alg"], n_b)
    except Exception as e:
        return [("exception", f"{b} {o} {t}: {type(e).__name__}: {e}")]
    mats = {"adjacency": adj, "borders": bor, "distances": dis}
    D = {}
    for name, m in mats.items():
        if m.shape != (n, n):
            return [("shape", f"{name} shape {m.shape}, expected {(n, n)}")]
        D[name] = dense(m).astype(float)
    # (1) structural
    for name, M in D.items():
        if np.diag(M).any():
            out.append(("diag", f"{name}: non-empty diagonal"))
        if not np.allclose(M, M.T, rtol=1e-9, atol=0):
            i, j = np.argwhere(~np.isclose(M, M.T, rtol=1e-9, atol=0))[0]
            out.append(("symmetry", f"{name} not symmetric: ({i},{j}) = {M[i, j]!r} vs ({j},{i}) = {M[j, i]!r}"))
        data = mats[name].tocoo().data.astype(float)
        if not (np.isfinite(data).all() and (data > 0).all()):
            out.append(("positive", f"{name}: stored entries not all finite and > 0"))
    ref = mats["adjacency"]
    rc, rr = ref.tocsr(), ref.tocoo()
    for name in ("borders", "distances"):
        c, co = mats[name].tocsr(), mats[name].tocoo()
        same = (c.indptr.shape == rc.indptr.shape and np.array_equal(c.indptr, rc.indptr) and np.array_equal(c.indices, rc.indices)
                and co.row.shape == rr.row.shape and np.array_equal(co.row, rr.row) and np.array_equal(co.col, rr.col))
        if not same:
            out.append(("pattern", f"{name} ({co.nnz} stored entries) and adjacency ({rr.nnz}) do not share one pattern / entry order"))
    # (2) compositional model
    idx = np.arange(n)
    p, q = idx // n_b, idx % n_b
    same_b = q[:, None] == q[None, :]
    same_p = p[:, None] == p[None, :]

    def model(Pm, Rm, c_pos, c_rot):
        M = np.zeros((n, n))
        M += np.where(same_b & ~same_p, c_pos * Pm[p[:, None], p[None, :]], 0.0)
        M += np.where(same_p & ~same_b, c_rot * Rm[q[:, None], q[None, :]], 0.0)
        return M
    want_adj = model(P_adj != 0, R_adj != 0, 1.0, 1.0) != 0
    if not np.array_equal(D["adjacency"] != 0, want_adj):
        i, j = np.argwhere((D["adjacency"] != 0) != want_adj)[0]
        out.append(("adjacency", f"cells {i}=(pos {p[i]}, rot {q[i]}) and {j}=(pos {p[j]}, rot {q[j]}): adjacency "
                                 f"{bool(D['adjacency'][i, j])}, product rule gives {bool(want_adj[i, j])}"))
    chosen = {}
    for name, Pm, Rm, power in (("distances", P_dis, R_dis, 1), ("borders", P_bor, R_bor, 2)):
        ok = None
        for fam, (cp, cr) in (("position", (f ** power, 1.0)), ("rotation", (1.0, f ** power))):
            if np.allclose(D[name], model(Pm, Rm, cp, cr), rtol=1e-9, atol=0):
                ok = fam
                break
        if ok is None:
            W = model(Pm, Rm, f ** power, 1.0)
            bad = ~np.isclose(D[name], W, rtol=1e-9, atol=0)
            i, j = np.argwhere(bad)[0]
            out.append((name, f"{name} ({i},{j}) = {D[name][i, j]!r}; position quantity {Pm[p[i], p[j]]!r}, rotation quantity "
                              f"{Rm[q[i], q[j]]!r}, f={f}: neither family scaled by f^{power} reproduces the matrix"))
        chosen[name] = ok
    if f != 1 and chosen.get("distances") and chosen.get("borders") and chosen["distances"] != chosen["borders"]:
        out.append(("family", f"factor applied to the {chosen['distances']} family for distances but the {chosen['borders']} family for borders"))
    # (3) volumes
    want_vol = P_vol[p] * R_vol[q] * f ** 3
    if vol.shape != (n,) or not np.allclose(vol, want_vol, rtol=1e-12, atol=0):
        i = int(np.argmax(np.abs(vol - want_vol))) if vol.shape == (n,) else 0
        out.append(("volume", f"volume of cell {i} = {vol[i] if vol.shape == (n,) else vol.shape!r}, position x rotation x f^3 = {want_vol[i]!r}"))
    if arr.shape != (n, 7):
        out.append(("rows", f"grid array shape {arr.shape}"))
    return out


def _shard(arg):
    shard, n_examples, max_b, max_o = arg
    from hypothesis import given, strategies as st

    @st.composite
    def cases(draw):
        n_b = 1 if draw(st.integers(0, 7)) == 0 else draw(st.integers(4, max_b))
        n_o = 1 if draw(st.integers(0, 9)) == 0 else draw(st.integers(2, max_o))
        n_t = draw(st.integers(2, 5))
        if draw(st.integers(0, 23)) == 0:
            # occasionally a large position grid (more than 500 position cells) with a small rotation grid
            n_b = draw(st.sampled_from([4, 5]))
            n_o = draw(st.integers(101, 140))
            n_t = draw(st.integers(5, 6)) if n_o * 5 > 500 else 6
        while n_b * n_o * n_t > 4300:
            n_t = max(2, n_t - 1)
            if n_b * n_o * n_t > 4300:
                n_o = max(1, n_o // 2)
        while n_b * n_o * n_t > 1500 and not (n_b <= 5 and n_o > 100):
            n_t = max(2, n_t - 1)
            if n_b * n_o * n_t > 1500:
                n_o = max(1, n_o // 2)
        incs = draw(st.lists(st.integers(20, 900), min_size=n_t, max_size=n_t))
        scale = draw(st.sampled_from([1000, 1000, 1000, 10 ** 5, 10 ** 6, 10]))  # nm: ordinary, very small and large radii
        digits = {1000: 3, 10 ** 5: 5, 10 ** 6: 6, 10: 1}[scale]
        radii = [f"{v / scale:.{digits}f}" for v in np.cumsum(incs)]
        if draw(st.integers(0, 2)) == 0:
            radii = list(draw(st.permutations(radii)))   # a list may be written in any order
        cart = draw(st.booleans()) and n_o >= 3
        f = draw(st.sampled_from([1.0, 2.0, 2.0, 0.25, 0.5, 1.5, 3.0, 4.0, 0.7310585786, 1e-3, 1e-4, 1e3, 37.5]))
        f2 = draw(st.sampled_from([None, None, 1.0, 3.0, 0.125]))
        return {"b_alg": draw(st.sampled_from(["cube4D", "randomQ"])), "n_b": n_b,
                "o_alg": draw(st.sampled_from(["ico", "cube3D", "randomS"])), "n_o": n_o, "radii": radii,
                "factor": f, "factor2": f2 if f2 != f else None, "cartesian": cart,
                "order": list(draw(st.permutations(["adjacency", "array", "borders", "distances", "volumes"])))}

    def builder(res, fail):
        @given(cases())
        def test(case):
            found = judge(case)
            known = f8_predicate(case)
            nt = len(case["radii"])
            res.case(sample=case, nontrivial=case["n_b"] >= 4 and case["n_o"] >= 4 and nt >= 2, key=case,
                     classes=[f"b={case['b_alg'] if case['n_b'] > 1 else 'zero4D'}", f"o={case['o_alg'] if case['n_o'] > 1 else 'zero3D'}",
                              "cartesian" if case["cartesian"] else "spherical", "f=1" if case["factor"] == 1 else "f!=1"]
                     + (["radii_written_unsorted"] if case["radii"] != sorted(case["radii"], key=float) else [])
                     + (["more_than_500_position_cells"] if case["n_o"] * nt > 500 else []))
            rest = []
            for tag, msg in found:
                if known is not None and tag in ("pattern", "positive"):
                    res.known_finding(known["key"], known["what"])
                else:
                    rest.append(msg)
            if rest:
                fail(case, "; ".join(rest[:4]))
        return test
    res = Result()
    run_hypothesis(builder, res, shard, n_examples, shrink=False)
    return res


F8_PROBE = {"b_alg": "cube4D", "n_b": 4, "o_alg": "ico", "n_o": 4, "radii": ["0.2", "0.4"], "factor": 2.0, "factor2": None,
            "cartesian": True, "order": ["adjacency", "array", "borders", "distances", "volumes"]}


def _f8_probe(_):
    """The recorded input of known finding F8 (Cartesian mode, ico_4), judged on every run."""
    res = Result()
    case = dict(F8_PROBE)
    found = judge(case)
    known = f8_predicate(case)
    res.case(sample=case, nontrivial=True, key=case, classes=["f8_probe"])
    rest = []
    for tag, msg in found:
        if known is not None and tag in ("pattern", "positive"):
            res.known_finding(known["key"], known["what"])
        else:
            rest.append(msg)
    if rest:
        res.violation(case, "; ".join(rest[:4]))
    return res


def replay(case):
    known = f8_predicate(case)
    return [m for tag, m in judge(case) if not (known is not None and tag in ("pattern", "positive"))]


def run(tier):
    total, max_b, max_o = (240, 24, 30) if tier == "quick" else (1600, 60, 80)
    res = merge_results(pmap(_shard, [(s, total // 16, max_b, max_o) for s in range(16)]) + pmap(_f8_probe, [0, 1]))
    rule = (f"Hypothesis: rotation grid zero4D_1 or cube4D/randomQ with N in 4..{max_b}; direction grid zero3D_1 or ico/cube3D/randomS "
            f"with N in 2..{max_o}; 2..5 increasing radii with non-uniform spacing; radii over several length scales (1e-5 .. 100 nm); factor in {{1, 2, 0.25, 0.5, 1.5, 3, 4, 0.731, 1e-3, 1e-4, 1e3, 37.5}}; both "
            f"position modes (Cartesian only for n_o>=3); at most 1500 cells, except roughly one case in twenty with more than 500 position cells and 4..5 rotations (up to 4200 cells). Every pair of cells judged (dense n x n). Non-trivial = "
            f"n_b>=4, n_o>=4, n_t>=2 (both neighbour families present); distinct = distinct specification.")
    return res, rule, {"assumptions": ["n_b in {2,3} is outside the property's quantifier and not generated",
                                       "component quantities come from separately constructed PositionGrid / rotation grid objects; "
                                       "their own correctness is decided by C03-C06"]}
