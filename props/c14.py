"""
C14  Saved grid geometry gives a rate matrix stationary at Boltzmann x volume.

Generator (Hypothesis): grid specification (as C02, <= 600 cells), per-cell energies, T, D.
Pipeline under test: GridWriter.save_* -> GridReader.load_* -> SQRA.get_rate_matrix -> DecompositionTool.get_decomposition
(two solver settings: no shift / a shift that is not an eigenvalue). Oracle: detailed balance in log form against
V exp(-E/RT) in grid order, pattern == saved adjacency, stationarity, dense eigen-solver for the spectrum.
"""
import os
import shutil
import tempfile

import numpy as np
from scipy.constants import k as kB, N_A

from vlib.core import Result, pmap, merge_results, run_hypothesis, quiet, load_known
from vlib.grids import dense

R_KJ = kB * N_A / 1000.0


def names(case):
    b = "zero4D_1" if case["n_b"] == 1 else f"{case['b_alg']}_{case['n_b']}"
    o = "zero3D_1" if case["n_o"] == 1 else f"{case['o_alg']}_{case['n_o']}"
    t = "[" + ", ".join(case["radii"]) + "]"
    return b, o, t


def f8_predicate(case):
    if not case["cartesian"]:
        return None
    _, o, _ = names(case)
    for k in load_known("C14"):
        if k["id"] != "F8":
            continue
        if o in k["match"]["o_grids"] or case["n_o"] in k["match"].get("n_o", []):
            return k
    return None


def energies_of(case, n):
    rng = np.random.default_rng(case["e_seed"])
    if case.get("e_ramp"):
        # a smooth landscape: the energy falls (or rises) from shell to shell by e_ramp kJ/mol, so neighbouring cells differ by
        # less than the cap while the global span is thousands of kJ/mol (a repulsive wall)
        n_pos = case["n_o"] * len(case["radii"])
        shell = (np.arange(n) // case["n_b"]) // case["n_o"]
        return case["e_ramp"] * shell.astype(float) + rng.standard_normal(n) * min(case["e_sigma"], 6.0) + case["e_shift"]
    e = rng.standard_normal(n) * case["e_sigma"]
    # all differences stay clearly below the documented 500 kJ/mol cap
    span = e.max() - e.min() if n else 0.0
    if span > 470.0:
        e = (e - e.min()) * (470.0 / span)
    return e + case["e_shift"]


def match_spectrum(ev, ref, atol):
    """Krylov solvers may return fewer copies of a multiple eigenvalue than its multiplicity. Sound reading of 'agree with a
    dense eigen-solver': every returned value is a dense eigenvalue (multiset matching, no value used twice), and no dense
    eigenvalue lying above the smallest returned one is missing altogether."""
    ref = list(ref)
    used = [False] * len(ref)
    for x in ev:
        best = None
        for k, r in enumerate(ref):
            if not used[k] and abs(r - x) <= atol and (best is None or abs(r - x) < abs(ref[best] - x)):
                best = k
        if best is None:
            return f"returned eigenvalue {x!r} is not an eigenvalue of the matrix (dense solver)"
        used[best] = True
    lowest = min(ev)
    for k, r in enumerate(ref):
        if r > lowest + atol and not any(abs(r - x) <= atol for x in ev):
            return f"MISSING: eigenvalue {r!r} of the matrix lies above the smallest returned one but was not returned"
    return None


def judge(case):
    """Returns (messages, info)."""
    from scipy.sparse.linalg import ArpackNoConvergence
    from scipy.sparse.csgraph import connected_components
    from molgri.io import GridWriter, GridReader
    from molgri.molecules.transitions import SQRA, DecompositionTool
    b, o, t = names(case)
    info = {}
    d = tempfile.mkdtemp(prefix="c14-")
    msgs = []
    try:
        try:
            with quiet():
                w = GridWriter(b, o, t, factor=case["factor"], position_grid_cartesian=case["cartesian"])
                p = {k: os.path.join(d, k) for k in ("volumes.npy", "borders.npz", "distances.npz", "adjacency.npz", "array.npy")}
                saves = {"volumes": lambda: w.save_volumes(p["volumes.npy"]), "borders": lambda: w.save_borders_array(p["borders.npz"]),
                         "distances": lambda: w.save_distances_array(p["distances.npz"]),
                         "adjacency": lambda: w.save_adjacency_array(p["adjacency.npz"]), "array": lambda: w.save_full_grid(p["array.npy"])}
                import itertools
                orders = list(itertools.permutations(sorted(saves)))
                for name in orders[case["e_seed"] % len(orders)]:      # the files are written in an order that varies per case
                    saves[name]()
                r = GridReader()
                V = np.asarray(r.load_volumes(p["volumes.npy"]), dtype=float)
                S = r.load_borders_array(p["borders.npz"])
                H = r.load_distances_array(p["distances.npz"])
                A = r.load_adjacency_array(p["adjacency.npz"])
                arr = r.load_full_grid(p["array.npy"])
            n = len(arr)
            E = energies_of(case, n)
            T, Dc = float(case["T"]), float(case["D"])
            with quiet():
                Q = SQRA(energies=E, volumes=V, distances=H, surfaces=S).get_rate_matrix(D=Dc, T=T)
        except Exception as e:
            return [f"{b} {o} {t}: pipeline raised {type(e).__name__}: {e}"], info
        info["n"] = n
        Qd = np.asarray(Q.toarray(), dtype=float)
        Ad = dense(A).astype(bool)
        if Qd.shape != (n, n) or V.shape != (n,):
            return [f"shapes: Q {Qd.shape}, volumes {V.shape}, grid {n}"], info
        if not np.isfinite(Qd).all():
            return ["rate matrix has non-finite entries"], info
        # 'over the cells in grid order': the saved volume of row n must be the volume of the cell that row n describes
        from props.c02 import rotation_parts
        from vlib.grids import position_grid
        n_b = case["n_b"]
        with quiet():
            P_vol = np.asarray(position_grid(o, t, cartesian=case["cartesian"]).get_all_position_volumes(), dtype=float)
        R_vol = rotation_parts(case["b_alg"], n_b)[3]
        idx = np.arange(n)
        want_V = P_vol[idx // n_b] * R_vol[idx % n_b] * float(case["factor"]) ** 3
        info["min_volume"] = float(V.min()) if len(V) else 1.0
        if not np.allclose(V, want_V, rtol=1e-12, atol=0):
            i = int(np.argmax(np.abs(V - want_V)))
            msgs.append(f"saved volume of row {i} = {V[i]!r}, but the cell of that row has volume {want_V[i]!r} (grid order)")
        off = ~np.eye(n, dtype=bool)
        if not np.array_equal((Qd != 0) & off, Ad & off):
            i, j = np.argwhere(((Qd != 0) & off) != (Ad & off))[0]
            msgs.append(f"off-diagonal pattern differs from the saved adjacency at ({i},{j})")
        ii, jj = np.nonzero(np.triu(Ad, 1))
        pos = (Qd[ii, jj] > 0) & (Qd[jj, ii] > 0)
        if not pos.all():
            msgs.append("non-positive rate on an adjacent pair")
        lhs = np.log(Qd[ii, jj][pos]) - np.log(Qd[jj, ii][pos])
        rhs = np.log(V[jj][pos]) - np.log(V[ii][pos]) + (E[ii][pos] - E[jj][pos]) / (R_KJ * T)
        if len(lhs):
            dev = np.abs(lhs - rhs)
            info["db_residual"] = float(dev.max())
            if dev.max() > 1e-8 + 1e-10 * np.abs(rhs).max():
                k = int(np.argmax(dev))
                a, c = ii[pos][k], jj[pos][k]
                msgs.append(f"detailed balance violated for cells ({a},{c}): log(Q_ij/Q_ji) = {lhs[k]!r}, "
                            f"log(pi_j/pi_i) = {rhs[k]!r}")
        # stationarity, column by column with the weights taken relative to the column's own cell (a global exp(-E/RT) would
        # underflow on steep landscapes): sum_i pi_i/pi_j Q_ij = 0
        logpi = np.log(V) - E / (R_KJ * T)
        rel_exp = np.where(Qd != 0, logpi[:, None] - logpi[None, :], 0.0)
        decidable = np.abs(rel_exp).max(axis=0) < 600
        with np.errstate(over="ignore", invalid="ignore"):
            flow = np.where(Qd != 0, np.exp(np.clip(rel_exp, -745, 700)) * Qd, 0.0)
        resid = np.abs(flow.sum(axis=0))
        bad = decidable & (resid > 1e-9 * np.abs(flow).sum(axis=0) + 1e-300)
        if bad.any():
            msgs.append(f"V exp(-E/RT) is not stationary: max |pi Q|_j relative {float((resid / (np.abs(flow).sum(axis=0) + 1e-300))[bad].max()):.3g}")
        # a second rate matrix from the very same loaded objects (other temperature and energies), as a parameter scan would
        # build it: the loaded geometry must not have been consumed by the first call
        S_before, H_before, V_before = dense(S).copy(), dense(H).copy(), V.copy()
        try:
            E2 = E[::-1].copy() * 0.5 + 1.0
            T2 = T + 50.0
            with quiet():
                Q2 = np.asarray(SQRA(energies=E2, volumes=V, distances=H, surfaces=S).get_rate_matrix(D=Dc * 2, T=T2).toarray(), dtype=float)
            if not (np.array_equal(dense(S), S_before) and np.array_equal(dense(H), H_before) and np.array_equal(V, V_before)):
                msgs.append("the loaded geometry (borders / distances / volumes) was modified while building a rate matrix")
            ok2 = (Q2[ii, jj] > 0) & (Q2[jj, ii] > 0)
            lhs2 = np.log(Q2[ii, jj][ok2]) - np.log(Q2[jj, ii][ok2])
            rhs2 = np.log(V[jj][ok2]) - np.log(V[ii][ok2]) + (E2[ii][ok2] - E2[jj][ok2]) / (R_KJ * T2)
            if len(lhs2) and np.abs(lhs2 - rhs2).max() > 1e-8 + 1e-10 * np.abs(rhs2).max():
                msgs.append(f"second rate matrix built from the same loaded geometry violates detailed balance "
                            f"(max log deviation {np.abs(lhs2 - rhs2).max():.3g})")
        except Exception as e:
            msgs.append(f"second rate matrix from the same loaded geometry raised {type(e).__name__}: {e}")
        ncomp, _ = connected_components(A.tocsr(), directed=False)
        if ncomp != 1:
            info["skipped"] = "disconnected"
            return msgs, info
        if msgs:
            return msgs, info
        if (E.max() - E.min()) / (R_KJ * T) > 25:
            # Boltzmann weights span more than e^25: eigenvector components underflow the solver tolerance; the spectral
            # clauses are judged on the moderate landscapes only (detailed balance and stationarity were judged above)
            info["skipped"] = "spectrum_ill_conditioned"
            return msgs, info
        # spectrum
        ref = np.sort(np.linalg.eigvals(Qd).real)[::-1]
        rho = np.abs(ref).max()
        kk = min(12, n - 2)
        if kk < 1:  # ARPACK needs k < n - 1: nothing to decompose for n <= 2
            info["skipped"] = "too_small_for_arpack"
            return msgs, info
        if abs(ref[min(kk, n - 1)]) < 1e-5 * rho or (n > 1 and ref[0] - ref[1] < 1e-6 * rho):
            # the k leading eigenvalues lie within 1e-5 of the spectral radius of zero, or the slowest relaxation is slower than
            # 1e-6 of the fastest (rotational and translational time scales many orders apart, e.g. factor 5e-4 or 60): below the resolution of an iterative solver run to tol 1e-10 with the
            # shift at the spectral radius. Pattern, detailed balance and stationarity were judged above; the spectrum is not.
            info["skipped"] = "leading_eigenvalues_below_solver_resolution"
            return msgs, info
        for setting in ({"which": "LR", "sigma": None}, {"which": "LM", "sigma": 1.0 * rho if rho > 0 else 1.0}):
            try:
                with quiet():
                    ev, evec = DecompositionTool(Q).get_decomposition(tol=1e-10, maxiter=100000, k=kk, **setting)
            except ArpackNoConvergence:
                info["arpack_inconclusive"] = info.get("arpack_inconclusive", 0) + 1
                continue
            except Exception as e:
                msgs.append(f"decomposition {setting}: {type(e).__name__}: {e}")
                continue
            ev = np.asarray(ev)
            if np.iscomplexobj(ev) or np.iscomplexobj(evec):
                msgs.append(f"decomposition {setting}: complex output")
                continue
            if np.any(np.diff(ev) > 1e-9 * rho):
                msgs.append(f"decomposition {setting}: eigenvalues not in descending order: {ev.tolist()}")
            problem = match_spectrum(ev, ref, 1e-7 * rho)
            if len(ev) != kk:
                problem = f"{len(ev)} eigenvalues returned, {kk} requested"
            if problem:
                if problem.startswith("MISSING") and setting["sigma"] is None:
                    info["f15_regular_mode_missing_eigenvalue"] = info.get("f15_regular_mode_missing_eigenvalue", 0) + 1
                    continue
                msgs.append(f"decomposition {setting}: {problem}; returned {ev[:5].tolist()}..., dense solver {ref[:5].tolist()}...")
                continue
            if abs(ev[0]) > 1e-7 * rho:
                msgs.append(f"decomposition {setting}: largest eigenvalue {ev[0]!r} is not zero (spectral radius {rho!r})")
            v0 = evec[:, 0]
            v0 = v0 / v0[np.argmax(np.abs(v0))]
            pi = np.exp(logpi - logpi.max())
            target = pi / pi.max()
            gap = ref[0] - ref[1] if n > 1 else rho
            if gap < 1e-6 * rho:
                # the zero eigenvalue is separated from the next one by less than 1e-6 of the spectral radius (time scales of
                # rotation and translation far apart, e.g. factor 5e-4): an iterative solver run to tol 1e-10 cannot resolve the
                # eigenvector; eigenvalues were judged above, the vector is not judged
                info["eigenvector_not_judged_gap_below_1e-6_rho"] = True
                continue
            tol_vec = 1e-6 * target + 1e-8 * max(1.0, rho / max(gap, 1e-300) * 1e-2)
            if (np.abs(v0 - target) > tol_vec).any():
                i = int(np.argmax(np.abs(v0 - target) - tol_vec))
                msgs.append(f"decomposition {setting}: stationary left eigenvector component {i} = {v0[i]!r}, V exp(-E/RT) gives {target[i]!r}")
        return msgs, info
    finally:
        shutil.rmtree(d, ignore_errors=True)


F15_PROBE = {"b_alg": "cube4D", "n_b": 8, "o_alg": "ico", "n_o": 1, "radii": ["0.100", "0.200", "0.300", "0.400"], "factor": 2.0,
             "cartesian": False, "e_seed": 15, "e_sigma": 2.0, "e_shift": 0.0, "T": 300.0, "D": 1.0, "e_ramp": None}


def _f15_probe(k):
    """The recorded setting of known finding F15 (32 cells, k = 12, regular mode), judged on every run. Which call misses the
    zero eigenvalue depends on ARPACK's internal start vector, so the case is judged up to twelve times; it is reported as
    KNOWN-FINDING as soon as one call misses it (observed rate 39 of 60), and any other failure is a violation as usual."""
    res = Result()
    case = dict(F15_PROBE, e_seed=15 + k)
    hit = False
    for _ in range(12):
        msgs, info = judge(dict(case))
        if msgs:
            res.violation(case, "; ".join(msgs[:3]))
            break
        if info.get("f15_regular_mode_missing_eigenvalue"):
            hit = True
            break
    res.case(sample=dict(case, f15_observed=hit), nontrivial=True, key=case, classes=["f15_probe"] + (["f15_observed"] if hit else []))
    if hit:
        k15 = [e for e in load_known("C14") if e["id"] == "F15"]
        if k15:
            res.known_finding(k15[0]["key"], k15[0]["what"])
        else:
            res.violation(case, "regular-mode decomposition misses an eigenvalue above the smallest returned one")
    return res


def _f8_probe(_):
    """The recorded input of known finding F8 (Cartesian mode, ico_4), judged on every run."""
    res = Result()
    case = dict(F15_PROBE, o_alg="ico", n_o=4, n_b=4, radii=["0.200", "0.400"], cartesian=True)
    msgs, info = judge(dict(case))
    known = f8_predicate(case)
    res.case(sample=case, nontrivial=True, key=case, classes=["f8_probe"])
    if msgs and known is not None:
        res.known_finding(known["key"], known["what"])
    elif msgs:
        res.violation(case, "; ".join(msgs[:3]))
    return res


def _shard(arg):
    shard, n_examples, max_b, max_o = arg
    from hypothesis import given, strategies as st

    @st.composite
    def cases(draw):
        n_b = 1 if draw(st.integers(0, 5)) == 0 else draw(st.integers(4, max_b))
        n_o = 1 if draw(st.integers(0, 9)) == 0 else draw(st.integers(2, max_o))
        n_t = draw(st.integers(2, 4))
        if n_b * n_o == 1:
            n_t = max(n_t, 3)
        ramp = None
        if draw(st.integers(0, 5)) == 0:
            n_t = draw(st.integers(8, 14))          # many shells with a radial energy ramp
            n_o = min(n_o, 12)
            n_b = 1 if n_b == 1 else min(n_b, 5)
            ramp = draw(st.sampled_from([-400.0, 350.0, 120.0]))
        while n_b * n_o * n_t > 600:
            if n_t > 2:
                n_t -= 1
            else:
                n_o = max(1, n_o // 2)
        incs = draw(st.lists(st.integers(20, 600), min_size=n_t, max_size=n_t))
        radii = [f"{v / 1000:.3f}" for v in np.cumsum(incs)]
        cart = draw(st.booleans()) and n_o >= 3
        return {"b_alg": draw(st.sampled_from(["cube4D", "randomQ"])), "n_b": n_b,
                "o_alg": draw(st.sampled_from(["ico", "cube3D", "randomS"])), "n_o": n_o, "radii": radii,
                "factor": draw(st.sampled_from([2.0, 1.0, 0.5, 3.0, 4.0, 2.0, 1e-3, 5e-4, 0.02, 60.0])), "cartesian": cart,
                "e_seed": draw(st.integers(0, 10 ** 6)), "e_sigma": draw(st.sampled_from([0.0, 0.5, 2.0, 6.0, 6.0, 60.0, 200.0])),
                "e_shift": draw(st.sampled_from([0.0, -250.0, 40.0])),
                "T": draw(st.sampled_from([150.0, 200.0, 273.15, 300.0, 400.0])), "D": draw(st.sampled_from([0.1, 1.0, 10.0])),
                "e_ramp": ramp}

    def builder(res, fail):
        @given(cases())
        def test(case):
            msgs, info = judge(case)
            known = f8_predicate(case)
            res.case(sample=dict(case, **{k: v for k, v in info.items()}),
                     nontrivial=case["n_b"] >= 4 and case["e_sigma"] > 0 and "skipped" not in info, key=case,
                     classes=[f"b={case['b_alg'] if case['n_b'] > 1 else 'zero4D'}", "cartesian" if case["cartesian"] else "spherical"]
                     + (["arpack_inconclusive"] if info.get("arpack_inconclusive") else [])
                     + (["skipped_" + info["skipped"]] if "skipped" in info else [])
                     + (["radial_energy_ramp_many_shells"] if case.get("e_ramp") else [])
                     + (["tiny_cell_volumes(<1e-8)"] if info.get("min_volume", 1) < 1e-8 else [])
                     + (["eigenvector_not_judged_gap_below_1e-6_rho"] if info.get("eigenvector_not_judged_gap_below_1e-6_rho") else []))
            if info.get("f15_regular_mode_missing_eigenvalue"):
                k15 = [k for k in load_known("C14") if k["id"] == "F15"]
                if k15:
                    res.known_finding(k15[0]["key"], k15[0]["what"])
                else:
                    fail(case, "regular-mode decomposition misses an eigenvalue above the smallest returned one")
            if msgs:
                if known is not None:
                    res.known_finding(known["key"], known["what"])
                else:
                    fail(case, "; ".join(msgs[:3]))
        return test
    res = Result()
    run_hypothesis(builder, res, shard, n_examples, shrink=False)
    return res


def replay(case):
    case = {k: v for k, v in case.items() if k in ("b_alg", "n_b", "o_alg", "n_o", "radii", "factor", "cartesian", "e_seed",
                                                   "e_sigma", "e_shift", "T", "D", "e_ramp")}
    if f8_predicate(case) is not None:
        return []
    return judge(case)[0]


def run(tier):
    total, max_b, max_o = (96, 16, 20) if tier == "quick" else (960, 40, 40)
    results = pmap(_shard, [(s, total // 16, max_b, max_o) for s in range(16)])
    results += pmap(_f15_probe, [0, 1, 2]) + pmap(_f8_probe, [0, 1])
    res = merge_results(results)
    rule = (f"Hypothesis: grids as in C02 (n_b = 1 or 4..{max_b}, n_o 1..{max_o}, 2..4 radii, <=600 cells, both position modes, five "
            f"factors), energies = seeded normal vector with sigma in {{0, 0.5, 2, 6, 60, 200}} kJ/mol (span clipped to 470, below the cap) and shift in {{0, -250, 40}}, T in "
            f"{{150, 200, 273.15, 300, 400}} K, D in {{0.1, 1, 10}}; solver settings (LR, no shift) and (LM, shift = spectral radius, never an "
            f"eigenvalue). Non-trivial = n_b>=4 with non-constant energies on a connected grid; distinct = distinct input.")
    return res, rule, {"assumptions": ["ARPACK non-convergence is counted as inconclusive, never as a violation",
                                       "energies differ by far less than the 500 kJ/mol cap",
                                       "eigenvector tolerance: 1e-6 relative per component plus 1e-8 of the largest component"]}
