"""
C10  Pseudotrajectory frame k is the rigid placement prescribed by grid row k.

Generator (Hypothesis): two rigid molecules (1..12 atoms, single atom / collinear / planar / generic, deliberately
off-centre) written as .xyz or .gro and read through the package's reader; a (K,7) array that is either a real full-grid
array or arbitrary positions and unit quaternions. Oracle: frame k == R(q_k) x_ref + t_k with an own quaternion formula,
molecule 1 unchanged, centre of mass at t_k, distances preserved, order/names/types, generator == universe, random access.
"""
import shutil
import tempfile

import numpy as np

from vlib.core import Result, pmap, merge_results, run_hypothesis, quiet
from vlib.molecules import write_molecule, read_molecule, quat_to_matrix, shape_class, ELEMENTS
from vlib.grids import full_grid

ATOL = 2e-4  # Angstrom: positions are float32 inside MDAnalysis


def grid_array_of(case):
    if case["grid"]["kind"] == "fullgrid":
        g = case["grid"]
        with quiet():
            return np.asarray(full_grid(g["b"], g["o"], g["t"]).get_full_grid_as_array())
    pos = np.array(case["grid"]["positions"], dtype=float)
    q = np.array(case["grid"]["quats"], dtype=float)
    form = case["grid"].get("dtype", "float64")
    if form == "int":
        # whole-number positions and integer quaternions (the rotation library normalises them), passed as an integer array
        return np.hstack([np.round(pos), np.round(q)]).astype(int)
    q = q / np.linalg.norm(q, axis=1)[:, None]
    arr = np.hstack([pos, q])
    if form == "float32":
        return arr.astype(np.float32)
    return arr


def judge(case):
    from molgri.molecules.pts import Pseudotrajectory
    d = tempfile.mkdtemp(prefix="c10-")
    msgs = []
    try:
        p1 = write_molecule(d, "m1", case["m1"]["elements"], case["m1"]["coords"], case["m1"]["fmt"])
        p2 = write_molecule(d, "m2", case["m2"]["elements"], case["m2"]["coords"], case["m2"]["fmt"])
        arr = grid_array_of(case)
        K = len(arr)
        try:
            m1, m2 = read_molecule(p1), read_molecule(p2)
            ref1 = np.array(m1.atoms.positions, dtype=float)
            ref2 = np.array(m2.atoms.positions, dtype=float)
            masses2 = np.array(m2.atoms.masses, dtype=float)
            names = list(m1.atoms.names) + list(m2.atoms.names)
            types = list(m1.atoms.types) + list(m2.atoms.types)
            arr_before = arr.copy()
            with quiet():
                pt = Pseudotrajectory(m1, m2, arr)
                uni = pt.get_pt_as_universe()
                frames = [np.array(ts.positions, dtype=float) for ts in uni.trajectory]
            if not np.array_equal(arr, arr_before):
                return ["building the pseudotrajectory modified the grid array that was passed in"]
            if np.abs(np.array(m1.atoms.positions, dtype=float) - ref1).max() > 0 or np.abs(np.array(m2.atoms.positions, dtype=float) - ref2).max() > 0:
                return ["building the pseudotrajectory moved the molecules that were passed in"]
        except Exception as e:
            return [f"exception {type(e).__name__}: {e}"]
        n1, n2 = len(ref1), len(ref2)
        if len(frames) != K:
            return [f"{len(frames)} frames for {K} grid rows"]
        if list(uni.atoms.names) != names or list(uni.atoms.types) != types or len(uni.atoms) != n1 + n2:
            msgs.append(f"atom order/names/types: {list(uni.atoms.names)} / {list(uni.atoms.types)}, expected {names} / {types}")
        if masses2.sum() <= 0:
            return msgs + ["harness: molecule 2 has no masses"]
        com_ref = (masses2[:, None] * ref2).sum(axis=0) / masses2.sum()
        if np.abs(com_ref).max() > 1e-3:
            msgs.append(f"reader did not centre molecule 2 (centre of mass {com_ref.tolist()})")
        dref = np.linalg.norm(ref2[:, None, :] - ref2[None, :, :], axis=2)
        for k in range(K):
            fr = frames[k]
            if fr.shape != (n1 + n2, 3):
                msgs.append(f"frame {k} has shape {fr.shape}")
                break
            if np.abs(fr[:n1] - ref1).max() > ATOL:
                msgs.append(f"frame {k}: molecule 1 moved by {np.abs(fr[:n1] - ref1).max():.3g} A")
                break
            R = quat_to_matrix(arr[k, 3:])
            want = (ref2 - com_ref) @ R.T + arr[k, :3]
            dev = np.abs(fr[n1:] - want).max()
            if dev > ATOL:
                a = int(np.argmax(np.abs(fr[n1:] - want).max(axis=1)))
                msgs.append(f"frame {k}: atom {a} of molecule 2 at {fr[n1 + a].tolist()}, rigid placement of row {k} "
                            f"(t={arr[k, :3].tolist()}, q={arr[k, 3:].tolist()}) gives {want[a].tolist()} (dev {dev:.3g} A)")
                break
            com = (masses2[:, None] * fr[n1:]).sum(axis=0) / masses2.sum()
            if np.abs(com - arr[k, :3]).max() > ATOL:
                msgs.append(f"frame {k}: centre of mass {com.tolist()} not at the row position {arr[k, :3].tolist()}")
                break
            dk = np.linalg.norm(fr[n1:, None, :] - fr[None, n1:, :], axis=2)
            if np.abs(dk - dref).max() > 2 * ATOL:
                msgs.append(f"frame {k}: intramolecular distances changed by {np.abs(dk - dref).max():.3g} A")
                break
        if msgs:
            return msgs
        # the molecules handed out by the reader belong to the caller: moving them must not change what a later read of
        # the same (unchanged) file returns - it is read centred at its centre of mass again
        m1.atoms.translate([1.5, -2.0, 0.5])
        m2.atoms.translate([0.0, 0.0, 6.0])
        again1, again2 = read_molecule(p1), read_molecule(p2)
        if np.abs(np.array(again1.atoms.positions, dtype=float) - ref1).max() > ATOL or \
                np.abs(np.array(again2.atoms.positions, dtype=float) - ref2).max() > ATOL:
            return ["reading the same file again after the first returned molecule was moved gives a molecule that is not the "
                    "centred file geometry"]
        # the generator interface gives the same frames, in row order
        with quiet():
            pt2 = Pseudotrajectory(read_molecule(p1), read_molecule(p2), arr)
            gen = [(i, np.array(u.atoms.positions, dtype=float)) for i, u in pt2.generate_pseudotrajectory()]
        if [i for i, _ in gen] != list(range(K)):
            msgs.append(f"generator frame indices {[i for i, _ in gen][:10]}")
        elif any(np.abs(g - f).max() > ATOL for (_, g), f in zip(gen, frames)):
            msgs.append("generate_pseudotrajectory and get_pt_as_universe disagree")
        # random access: no state accumulated between frames
        order = list(case.get("read_order", []))
        for k in order:
            k = k % K
            uni.trajectory[k]
            if np.abs(np.array(uni.atoms.positions, dtype=float) - frames[k]).max() > 0:
                msgs.append(f"re-reading frame {k} out of order gives different coordinates")
                break
        if not msgs:
            # the one-molecule pseudotrajectories are the corresponding atoms of the same frames; they belong to the caller:
            # editing them in place must not change the full pseudotrajectory
            try:
                with quiet():
                    for mol2 in (True, False):
                        one = pt.get_one_molecule_pt_as_universe(return_mol2=mol2)
                        sub = np.array([np.array(ts.positions, dtype=float) for ts in one.trajectory])
                        want_sub = np.array(frames)[:, n1:] if mol2 else np.array(frames)[:, :n1]
                        if sub.shape != want_sub.shape or np.abs(sub - want_sub).max() > ATOL:
                            msgs.append(f"one-molecule pseudotrajectory (molecule {2 if mol2 else 1}) is not the corresponding "
                                        f"atoms of the full frames")
                            break
                        for ts in one.trajectory:       # the caller recentres / rescales its own universe frame by frame
                            one.atoms.translate([3.0, -2.0, 7.5])
                            ts.positions[:] = ts.positions * 1.5
                    after = [np.array(ts.positions, dtype=float) for ts in pt.get_pt_as_universe().trajectory]
                if not msgs and (len(after) != K or any(np.abs(a - f).max() > 0 for a, f in zip(after, frames))):
                    msgs.append("the full pseudotrajectory changed after the caller edited the one-molecule universes it was "
                                "handed by get_one_molecule_pt_as_universe")
            except Exception as e:
                msgs.append(f"one-molecule pseudotrajectory: {type(e).__name__}: {e}")
        if not msgs and K >= 2 and arr.dtype == np.float64:
            # the caller reorders its grid array in place between constructing the pseudotrajectory and asking for the frames:
            # every frame must still be the placement of ONE row - of the array as it was at construction or as it is now
            try:
                arr3 = arr.copy()
                with quiet():
                    pt3 = Pseudotrajectory(read_molecule(p1), read_molecule(p2), arr3)
                    arr3[:] = arr3[::-1].copy()
                    late = np.array([np.array(ts.positions, dtype=float) for ts in pt3.get_pt_as_universe().trajectory])
                fr = np.array(frames)
                ok_then = late.shape == fr.shape and np.abs(late - fr).max() <= ATOL
                ok_now = late.shape == fr.shape and np.abs(late - fr[::-1]).max() <= ATOL
                if not (ok_then or ok_now):
                    msgs.append("grid array reordered in place between construction and first use: the frames are neither the "
                                "placements of the rows at construction nor of the rows at generation time")
            except Exception as e:
                msgs.append(f"pseudotrajectory on an array edited after construction: {type(e).__name__}: {e}")
        if not msgs and case.get("writer_ops"):
            msgs += judge_writer(case, d, p1, p2, arr, frames, names)
        return msgs
    finally:
        shutil.rmtree(d, ignore_errors=True)


def judge_writer(case, d, p1, p2, arr, frames, names):
    """The writer path (molgri/io.py): a PtWriter built from the two files and the saved array, driven through a history
    of its public calls. Whatever was called before, the pseudotrajectory it offers / writes is the one judged above."""
    import os
    import MDAnalysis as mda
    from molgri.io import PtWriter
    K = len(arr)
    frames = np.array(frames)
    path_grid = os.path.join(d, "grid.npy")
    np.save(path_grid, arr)
    msgs = []

    def compare(label, got, tol):
        got = np.array(got, dtype=float)
        if got.shape != frames.shape:
            msgs.append(f"writer, {label}: frames of shape {got.shape}, expected {frames.shape}")
            return
        err = np.abs(got - frames).max(axis=(1, 2))
        if err.max() > tol:
            k = int(np.argmax(err > tol))
            msgs.append(f"writer, {label}: frame {k} deviates by {err[k]:.4g} A from the rigid placement of row {k} "
                        f"(history {case['writer_ops']})")

    try:
        with quiet():
            w = PtWriter(p1, p2, 200.0, path_grid)
            for step, op in enumerate(case["writer_ops"]):
                if msgs:
                    break
                if op[0] == "structure":
                    w.write_structure(float(op[1]), os.path.join(d, f"start{step}.gro"))
                elif op[0] == "universe":
                    compare(f"pt_universe at step {step}", [np.array(ts.positions) for ts in w.pt_universe.trajectory], ATOL)
                    if list(w.pt_universe.atoms.names) != names:
                        msgs.append(f"writer: atom names {list(w.pt_universe.atoms.names)}")
                elif op[0] == "files":
                    pt_path, st_path = os.path.join(d, f"pt{step}.xyz"), os.path.join(d, f"pt{step}.gro")
                    w.write_full_pt(pt_path, st_path)
                    u = mda.Universe(st_path, pt_path)
                    compare(f"written trajectory at step {step}", [np.array(ts.positions) for ts in u.trajectory], 2e-3)
                    first = mda.Universe(st_path)
                    if np.abs(np.array(first.atoms.positions, dtype=float) - frames[0]).max() > 1.1e-2:
                        msgs.append(f"writer: the structure file written at step {step} is not frame 0 "
                                    f"(history {case['writer_ops']})")
                elif op[0] == "directory":
                    paths = [os.path.join(d, f"dir{step}_{k}.xyz") for k in range(K)]
                    w.write_full_pt_in_directory(paths, os.path.join(d, f"dir{step}.gro"))
                    compare(f"single-frame files at step {step}",
                            [np.array(mda.Universe(pth).atoms.positions) for pth in paths], 2e-3)
    except Exception as e:
        msgs.append(f"writer history {case['writer_ops']}: exception {type(e).__name__}: {e}")
    return msgs


def _shard(arg):
    shard, n_examples = arg
    from hypothesis import given, strategies as st

    coord = st.integers(-8000, 8000).map(lambda v: v / 1000)

    @st.composite
    def molecule(draw, min_atoms=1):
        shape = draw(st.sampled_from(["single", "collinear", "planar", "generic", "generic"]))
        n = 1 if shape == "single" else draw(st.integers(max(2, min_atoms), 12))
        if shape == "planar":
            n = max(n, 3)
        if shape == "generic":
            n = max(n, 4)
        origin = np.array([draw(coord), draw(coord), draw(coord)]) / 2
        if shape == "single":
            pts = origin[None, :]
        elif shape == "collinear":
            direction = np.array(draw(st.sampled_from([(1, 0, 0), (0, 1, 0), (1, 1, 0), (1, 2, 2)])), dtype=float)
            ts = draw(st.lists(st.integers(-30, 30), min_size=n, max_size=n, unique=True))
            pts = origin + np.outer(np.array(ts) / 10, direction)
        elif shape == "planar":
            e1 = np.array(draw(st.sampled_from([(1, 0, 0), (1, 1, 0), (0, 1, 1)])), dtype=float)
            e2 = np.array(draw(st.sampled_from([(0, 0, 1), (1, -1, 0), (0, 1, -1)])), dtype=float)
            ab = draw(st.lists(st.tuples(st.integers(-30, 30), st.integers(-30, 30)), min_size=n, max_size=n, unique=True))
            pts = origin + np.array([a / 10 * e1 + b / 10 * e2 for a, b in ab])
        else:
            pts = np.array([[draw(coord), draw(coord), draw(coord)] for _ in range(n)]) / 2 + origin
        pts = np.round(pts, 2)
        # distinct atoms
        _, idx = np.unique(pts, axis=0, return_index=True)
        pts = pts[np.sort(idx)]
        els = [draw(st.sampled_from(ELEMENTS)) for _ in range(len(pts))]
        return {"elements": els, "coords": pts.tolist(), "fmt": draw(st.sampled_from(["xyz", "gro"]))}

    @st.composite
    def grids(draw):
        if draw(st.booleans()):
            b = draw(st.sampled_from(["zero4D_1", "cube4D_4", "randomQ_5", "cube4D_8"]))
            o = draw(st.sampled_from(["zero3D_1", "ico_3", "cube3D_4", "randomS_5"]))
            t = draw(st.sampled_from(["[0.3]", "[0.2, 0.4]", "linspace(0.25, 0.5, 3)"]))
            return {"kind": "fullgrid", "b": b, "o": o, "t": t}
        layout = draw(st.sampled_from(["free", "free", "blocks"]))
        K = draw(st.integers(1, 40))
        pos = [[draw(st.integers(-4000, 4000)) / 100 for _ in range(3)] for _ in range(K)]
        if layout == "blocks":
            # product-like arrays that are not a grid: a few positions, each repeated for a block of rows, with the
            # orientations of a small set in a different order (or a different subset) at every position
            n_pos, n_q = draw(st.integers(2, 5)), draw(st.integers(2, 6))
            qset = []
            for _ in range(n_q):
                q = [draw(st.integers(-100, 100)) for _ in range(4)]
                qset.append([float(x) for x in (q if any(q) else [0, 0, 0, 1])])
            pos_set = pos[:n_pos] + [[1.0 * i, 2.0, 3.0] for i in range(n_pos - len(pos[:n_pos]))]
            pos, quats = [], []
            same_block = draw(st.booleans())
            for pi in range(n_pos):
                order = list(draw(st.permutations(range(n_q))))
                if not same_block:
                    order = order[:draw(st.integers(1, n_q))]
                for qi in order:
                    pos.append(pos_set[pi])
                    quats.append(qset[qi])
            return {"kind": "array", "positions": pos, "quats": quats, "layout": "blocks"}
        quats = []
        for _ in range(K):
            kind = draw(st.sampled_from(["generic", "generic", "small_angle", "small_angle", "half_turn", "identity"]))
            if kind == "generic":
                q = [draw(st.integers(-100, 100)) for _ in range(4)]
                if not any(q):
                    q = [0, 0, 0, 1]
            else:
                axis = [draw(st.integers(-10, 10)) for _ in range(3)]
                if not any(axis):
                    axis = [0, 0, 1]
                axis = np.array(axis, dtype=float) / np.linalg.norm(axis)
                # rotation angles over many orders of magnitude: tiny but non-zero rotations are legitimate grid rows
                angle = {"small_angle": 10.0 ** (draw(st.integers(-60, -5)) / 10),
                         "half_turn": np.pi, "identity": 0.0}[kind]
                q = list(np.sin(angle / 2) * axis) + [float(np.cos(angle / 2))]
                if draw(st.booleans()):
                    q = [-x for x in q]  # -q is the same rotation
            quats.append([float(x) for x in q])
        form = draw(st.sampled_from(["float64", "float64", "float64", "int", "float32"]))
        if form == "int":
            pos = [[float(round(v)) for v in p] for p in pos]
            axis_aligned = [[0, 0, 0, 1], [0, 0, 0, -1], [1, 0, 0, 0], [0, 1, 0, 0], [0, 0, 1, 0], [1, 1, 0, 0], [1, 0, 0, 1], [1, 1, 1, 1], [0, -1, 0, 1]]
            quats = [[float(x) for x in axis_aligned[draw(st.integers(0, len(axis_aligned) - 1))]] for _ in pos]
        return {"kind": "array", "positions": pos, "quats": quats, "dtype": form}

    def builder(res, fail):
        writer_op = st.one_of(st.tuples(st.just("structure"), st.sampled_from([0.0, 3.0, 5.0, 12.5, -4.0])),
                              st.tuples(st.just("universe")), st.tuples(st.just("files")), st.tuples(st.just("directory")))
        structure_op = st.tuples(st.just("structure"), st.sampled_from([3.0, 5.0, 12.5, -4.0]))
        writer_ops = st.one_of(st.just([]), st.lists(writer_op, min_size=1, max_size=4),
                               st.tuples(structure_op, st.lists(writer_op, min_size=1, max_size=3)).map(lambda t: [t[0]] + t[1]))

        @given(molecule(), molecule(), grids(), st.lists(st.integers(0, 100), max_size=6), writer_ops)
        def test(m1, m2, grid, read_order, ops):
            case = {"m1": m1, "m2": m2, "grid": grid, "read_order": read_order, "writer_ops": [list(o) for o in ops]}
            msgs = judge(case)
            sc = shape_class(m2["coords"])
            arr = grid_array_of(case)
            angles = 2 * np.arccos(np.clip(np.abs(arr[:, 6] / np.linalg.norm(arr[:, 3:], axis=1)), 0, 1))
            nontrivial = sc in ("planar", "generic") and angles.max() > 0.1
            small = bool(((angles > 1e-5) & (angles < 1e-2)).any()) or bool(((2 * np.pi - angles > 1e-5) & (2 * np.pi - angles < 1e-2)).any())
            res.case(sample=case, nontrivial=nontrivial, key=case,
                     classes=[f"m2={sc}", f"grid={grid['kind']}" + ("_blocks" if grid.get("layout") == "blocks" else ""), f"fmt={m1['fmt']}+{m2['fmt']}"]
                     + (["has_small_nonzero_rotation(1e-5..1e-2 rad)"] if small else [])
                     + (["writer_history"] if ops else [])
                     + (["writer_structure_before_pt"] if ops and ops[0][0] == "structure" and len(ops) > 1 else []))
            if msgs:
                fail(case, "; ".join(msgs[:3]))
        return test
    res = Result()
    run_hypothesis(builder, res, shard, n_examples)
    return res


def replay(case):
    return judge(case)


def run(tier):
    total = 640 if tier == "quick" else 6400
    res = merge_results(pmap(_shard, [(s, total // 16) for s in range(16)]))
    rule = ("Hypothesis: molecule 1 and 2 with 1..12 atoms (H, C, N, O, S; single atom / collinear / planar / generic; coordinates "
            "with 2 decimals in [-8, 8] A, off-centre), written as .xyz or .gro and read through OneMoleculeReader; grid = a real "
            "full-grid array (16 small specifications) or 1..40 arbitrary rows, or block-structured arrays (2..5 positions x permuted subsets of 2..6 orientations) (positions in [-40, 40] A, normalised integer "
            "quaternions); a random frame read order; for about half of the cases a history of 1..4 PtWriter calls (write_structure(d), "
            "pt_universe, write_full_pt, write_full_pt_in_directory) on a writer built from the same files and the saved array. Non-trivial = molecule 2 with >=3 non-collinear atoms and some rotation "
            "angle > 0.1 rad; distinct = distinct input.")
    return res, rule, {"assumptions": ["tolerance 2e-4 A (float32 coordinates inside MDAnalysis)",
                                       "masses and file parsing are MDAnalysis' (trusted base)"]}
