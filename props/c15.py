"""
C15  Rotation-cell volumes approximate a partition of rotation space.

Generator: (algorithm, N) enumerated (cube4D, randomQ; small direction grids for the N<4 clause).
Oracle: N <= 3: exactly pi^2/N (4 pi/N for directions). N >= 4: independent Monte-Carlo nearest-rotation measure with
enough uniform points on S^3 that the smallest cell receives >= 10 000 hits; alarm only beyond tolerance + 6.5 sigma.
"""
import numpy as np

from vlib.core import Result, pmap, merge_results, SEED, quiet, load_known
from vlib.grids import fresh_sphere_grid

PI2 = np.pi ** 2


def mc_measure(G, tag, min_hits=10000, cap=3e7):
    """Hits of uniform points on S^3 per nearest rotation (argmax |x.q|), adaptively many points."""
    rng = np.random.default_rng([SEED, 15, tag])
    N = len(G)
    hits = np.zeros(N, dtype=np.int64)
    total = 0
    target = 200000
    chunk = max(20000, int(4e6 // N))
    while True:
        while total < target:
            m = int(min(chunk, target - total))
            X = rng.standard_normal((m, 4))
            idx = np.argmax(np.abs(X @ G.T), axis=1)  # the direction of X is uniform; no need to normalise for argmax
            hits += np.bincount(idx, minlength=N)
            total += m
        smallest = hits.min()
        if smallest >= min_hits or total >= cap:
            break
        frac = max(smallest, 1) / total
        target = int(min(cap, max(total * 1.5, 1.15 * min_hits / frac)))
    return hits, total


def judge(case):
    """Returns list of (key, message); key identifies the failing cell for known-finding matching."""
    alg, N = case["alg"], case["N"]
    out = []
    try:
        g = fresh_sphere_grid(alg, N)
        with quiet():
            vols = np.asarray(g.get_spherical_voronoi().get_voronoi_volumes(), dtype=float)
    except Exception as e:
        return [(None, f"{alg}_{N}: {type(e).__name__}: {e}")]
    dim3 = alg in ("ico", "cube3D", "randomS")
    if vols.shape != (N,):
        return [(None, f"{alg}_{N}: {vols.shape} volumes for {N} points")]
    if N < 4:
        want = (4 * np.pi if dim3 else PI2) / N
        if not np.allclose(vols, want, rtol=1e-12, atol=0):
            out.append((None, f"{alg}_{N}: volumes {vols.tolist()} != documented equal share {want!r}"))
        return out
    if dim3:
        return out
    if (vols <= 0).any():
        out.append((None, f"{alg}_{N}: non-positive cell volume"))
    s = vols.sum()
    if abs(s / PI2 - 1) > 0.12:
        out.append((None, f"{alg}_{N}: volumes sum to {s / PI2:.4f} pi^2 (12 % band)"))
    with quiet():
        G = np.asarray(g.get_grid_as_array(only_upper=True), dtype=float)
    hits, total = mc_measure(G, N * 7 + (alg == "cube4D"))
    true = hits / total * PI2
    rel = vols / np.maximum(true, 1e-300) - 1
    tol = 0.30 + 6.5 / np.sqrt(np.maximum(hits, 1))
    for c in np.nonzero(np.abs(rel) > tol)[0]:
        out.append(((alg, N, int(c)), f"{alg}_{N}: cell {c} volume {vols[c]:.5f} is {rel[c] * 100:+.1f} % off the Monte-Carlo measure "
                                      f"{true[c]:.5f} ({hits[c]} hits of {total}; band 30 % + 6.5 sigma)"))
    case["_worst"] = float(np.abs(rel).max())
    case["_mc_points"] = int(total)
    if N <= 60 and not out:
        # a second object of the same grid on which the neighbour getters are called first: the volumes are a property of
        # the grid, not of the order in which it was asked
        try:
            g2 = fresh_sphere_grid(alg, N)
            with quiet():
                g2.get_center_distances(), g2.get_cell_borders(), g2.get_voronoi_adjacency()
                v_after = np.asarray(g2.get_spherical_voronoi().get_voronoi_volumes(), dtype=float)
        except Exception as e:
            return [(None, f"{alg}_{N}: volumes after the neighbour getters: {type(e).__name__}: {e}")]
        if v_after.shape != (N,):
            out.append((None, f"{alg}_{N}: {v_after.shape} volumes after the neighbour getters"))
        else:
            r2 = v_after / np.maximum(true, 1e-300) - 1
            if (v_after <= 0).any() or abs(v_after.sum() / PI2 - 1) > 0.12 or (np.abs(r2) > tol).any():
                c = int(np.argmax(np.abs(r2)))
                out.append((None, f"{alg}_{N}: volumes asked after distances / borders / adjacency on the same object sum to "
                                  f"{v_after.sum() / PI2:.4f} pi^2, cell {c} is {r2[c] * 100:+.1f} % off the Monte-Carlo measure"))
    if case.get("consumer_history") and not out:
        # the same rotation grid inside a full grid, after the full grid's consumers of the volumes ran (total volumes /
        # prefactors, twice), and after a caller scaled a returned volume array in place: what the rotation grid reports
        # must still satisfy the clauses judged above
        try:
            from vlib.grids import full_grid
            with quiet():
                first = np.asarray(g.get_spherical_voronoi().get_voronoi_volumes(), dtype=float)
                first *= 8.0   # the caller's own array
                again = np.asarray(g.get_spherical_voronoi().get_voronoi_volumes(), dtype=float)
                fg = full_grid(f"{alg}_{N}", case["consumer_history"][0], case["consumer_history"][1])
                for _ in range(2):
                    fg.get_total_volumes()
                inside = np.asarray(fg.b_rotations.get_spherical_voronoi().get_voronoi_volumes(), dtype=float)
        except Exception as e:
            return [(None, f"{alg}_{N}: consumer history: {type(e).__name__}: {e}")]
        for label, v in (("after the caller scaled the previously returned array", again),
                         (f"of the rotation grid inside FullGrid({alg}_{N}, {case['consumer_history'][0]}, "
                          f"{case['consumer_history'][1]}) after get_total_volumes()", inside)):
            if v.shape != (N,):
                out.append((None, f"{alg}_{N}: {v.shape} volumes {label}"))
                continue
            r2 = v / np.maximum(true, 1e-300) - 1
            if (v <= 0).any() or abs(v.sum() / PI2 - 1) > 0.12 or (np.abs(r2) > tol).any():
                c = int(np.argmax(np.abs(r2)))
                out.append((None, f"{alg}_{N}: volumes {label} sum to {v.sum() / PI2:.4f} pi^2, cell {c} is "
                                  f"{r2[c] * 100:+.1f} % off the Monte-Carlo measure"))
    if case.get("check_double_cover"):
        from molgri.space.voronoi import RotobjVoronoi
        with quiet():
            full = np.asarray(g.get_grid_as_array(only_upper=False))
            v2 = np.asarray(RotobjVoronoi(full).get_voronoi_volumes(approx=True), dtype=float)
        if v2.shape != (2 * N,) or not np.array_equal(v2[:N], vols):
            out.append((None, f"{alg}_{N}: the N volumes are not the first N of the 2N double-cover volumes"))
    return out


def known_match(key):
    if key is None:
        return None
    for k in load_known("C15"):
        m = k["match"]
        if (m["alg"], m["N"], m["cell"]) == tuple(key):
            return k
    return None


def _one(case):
    res = Result()
    found = judge(case)
    res.case(sample={k: v for k, v in case.items()}, nontrivial=case["N"] >= 4 and case["alg"] in ("cube4D", "randomQ"),
             key=[case["alg"], case["N"]], classes=[f"alg={case['alg']}", "N<4" if case["N"] < 4 else "N>=4"]
             + (["with_full_grid_consumer_history"] if case.get("consumer_history") and case["N"] >= 4 else []))
    for key, msg in found:
        k = known_match(key)
        if k is not None:
            res.known_finding(k["key"], k["what"])
        else:
            res.violation({"alg": case["alg"], "N": case["N"], "check_double_cover": case.get("check_double_cover", False),
                           "after": case.get("after"), "consumer_history": case.get("consumer_history")}, msg)
    return res


def _group(cases):
    """Several grids judged one after the other in the same worker process (as a user session would): grids of equal size
    from both algorithms follow each other, in alternating order."""
    res = Result()
    prev = None
    for case in cases:
        case = dict(case, after=prev)
        res.merge(_one(case))
        prev = [case["alg"], case["N"]]
    return res


def replay(case):
    case = dict(case)
    after = case.pop("after", None)
    if after:  # reproduce the process history: the grid judged just before in the same process
        judge({"alg": after[0], "N": after[1]})
    return [m for key, m in judge(case) if known_match(key) is None]


def run(tier):
    rng = np.random.default_rng([SEED, 15])
    cases = []
    for alg in ("cube4D", "randomQ"):
        if tier == "quick":
            ns = set(range(1, 41)) | set(int(x) for x in rng.integers(41, 110, size=4)) | {128, 200}
        else:
            ns = set(range(1, 273))
        hist = [("zero3D_1", "[0.3]"), ("ico_5", "[0.2, 0.4]")]
        cases += [{"alg": alg, "N": n, "check_double_cover": n <= (40 if tier == "quick" else 120),
                   "consumer_history": hist[n % 2] if (n <= 60 and (tier == "thorough" or n % 3 != 2)) else None} for n in ns]
    for alg in ("ico", "cube3D", "randomS"):
        cases += [{"alg": alg, "N": n} for n in (1, 2, 3)]
    by_n = {}
    for c in cases:
        by_n.setdefault(c["N"], []).append(c)
    groups = []
    for n in sorted(by_n, reverse=True):
        g = sorted(by_n[n], key=lambda c: c["alg"], reverse=bool(n % 2))
        groups.append(g)
    res = merge_results(pmap(_group, groups))
    rule = ("enumeration of (algorithm, N): cube4D and randomQ, " + ("every N in 1..40, 4 seeded N in 41..110 and N = 128, 200 each" if tier == "quick"
            else "every N in 1..272") + "; direction grids N=1..3 for the equal-share clause. For N>=4 every cell is compared with a "
            "Monte-Carlo nearest-rotation measure (adaptive number of uniform points so that the smallest cell gets >= 10 000 hits). "
            "For N<=60 the clauses are judged again on a second object asked for distances, borders and adjacency first; for N<=60 (quick: two thirds of them) the clauses are judged again on the volumes reported after a caller scaled a returned array in place and by the rotation grid inside a FullGrid after get_total_volumes() ran twice. "
            "Non-trivial = rotation grid with N>=4; distinct = distinct (algorithm, N).")
    return res, rule, {"exhaustive": tier == "thorough",
                       "assumptions": ["the oracle is statistical: alarm threshold = 30 % + 6.5 sigma of the cell's own sampling error, "
                                       "so violations smaller than that margin are not detectable"]}
