"""
C01  SqRA rate matrix is the SqRA formula and a reversible generator.

Generator (Hypothesis): n, symmetric sparsity pattern (random density, path, star, two components, isolated rows),
positive S, h, V (log-uniform), energies from a mixture incl. pairs beyond the 500 kJ/mol cap, T, D, storage forms
(csr from dense, csr obtained as coo+coo, row-major coo, mixed).
Oracle: dense numpy evaluation of the stated formula with the one-sided cap; row sums; detailed balance in log form;
metamorphic relations (energy shift, linearity in D, storage-form independence).
"""
import numpy as np
from scipy.constants import k as kB, N_A
from scipy.sparse import coo_array, csr_array

from vlib.core import Result, pmap, merge_results, run_hypothesis, quiet

R_KJ = kB * N_A / 1000.0  # kJ/(mol K)
CAP = 5e2
TINY = 1e-290  # entries that underflow into the subnormal range carry no relative precision


def build_inputs(case):
    n = case["n"]
    pairs = [tuple(p) for p in case["pairs"]]
    S = np.zeros((n, n))
    H = np.zeros((n, n))
    for (i, j), s, h in zip(pairs, case["S"], case["h"]):
        S[i, j] = S[j, i] = s
        H[i, j] = H[j, i] = h
    return S, H, np.array(case["V"], dtype=float), np.array(case["E"], dtype=float)


def to_form(dense, form):
    if form == "csr":
        return csr_array(dense)
    if form == "coo+coo":
        upper = coo_array(np.triu(dense))
        lower = coo_array(np.tril(dense))
        return upper + lower  # what FullGrid returns: the sum of two coo arrays (csr)
    if form == "coo":
        r, c = np.nonzero(dense)  # row-major order
        return coo_array((dense[r, c], (r, c)), shape=dense.shape)
    raise ValueError(form)


def reference(S, H, V, E, T, D):
    n = len(V)
    pattern = S != 0
    dE = E[:, None] - E[None, :]
    capped = np.where(dE < CAP, dE, CAP)
    with np.errstate(divide="ignore", invalid="ignore", over="ignore"):
        Q = np.where(pattern, D * S / np.where(pattern, H, 1.0) / V[:, None] * np.exp(capped / (2 * R_KJ * T)), 0.0)
    return Q, pattern, dE


def call(S, H, V, E, T, D, forms):
    from molgri.molecules.transitions import SQRA
    with quiet():
        sq = SQRA(energies=E.copy(), volumes=V.copy(), distances=to_form(H, forms[1]), surfaces=to_form(S, forms[0]))
        out = sq.get_rate_matrix(D=D, T=T)
    return out


def judge(case):
    from molgri.molecules.transitions import SQRA
    S, H, V, E = build_inputs(case)
    T, D = float(case["T"]), float(case["D"])
    forms = case["forms"]
    n = case["n"]
    msgs = []
    # one model object and one pair of input matrices, used for a whole history of calls (as a caller would)
    # V and E as the caller stores them: float64, or integer-valued arrays of an integer dtype
    S_in, H_in = to_form(S, forms[0]), to_form(H, forms[1])
    V_in, E_in = V.astype(case.get("vdtype", "float64")), E.astype(case.get("edtype", "float64"))
    try:
        with quiet():
            model = SQRA(energies=E_in, volumes=V_in, distances=H_in, surfaces=S_in)
            out = model.get_rate_matrix(D=D, T=T)
    except Exception as e:
        return [f"exception {type(e).__name__}: {e}"]
    if out.shape != (n, n):
        return [f"shape {out.shape}"]
    if out.format != "csr":
        msgs.append(f"result format {out.format}, expected csr")
    Q = np.asarray(out.toarray(), dtype=float)
    ref, pattern, dE = reference(S, H, V, E, T, D)
    off = ~np.eye(n, dtype=bool)
    if not np.all(np.isfinite(Q)):
        return ["non-finite entries"]
    # (a) the formula on the pattern, zero elsewhere off the diagonal
    bad = off & ~np.isclose(Q, ref, rtol=1e-10, atol=TINY)
    if bad.any():
        i, j = np.argwhere(bad)[0]
        where = "on" if pattern[i, j] else "off"
        msgs.append(f"Q[{i},{j}]={Q[i, j]!r} but formula gives {ref[i, j]!r} ({where} the pattern, dE={dE[i, j]!r})")
    # (b) rows sum to zero
    rs = Q.sum(axis=1)
    scale = np.abs(Q).sum(axis=1)
    if np.any(np.abs(rs) > 1e-10 * scale + 1e-300):
        i = int(np.argmax(np.abs(rs) - 1e-10 * scale))
        msgs.append(f"row {i} sums to {rs[i]!r} (scale {scale[i]!r})")
    # (c) detailed balance for pairs below the cap (log form)
    ii, jj = np.nonzero(np.triu(pattern))
    for i, j in zip(ii, jj):
        if abs(dE[i, j]) < CAP and Q[i, j] > 0 and Q[j, i] > 0:
            lhs = np.log(Q[i, j]) - np.log(Q[j, i])
            rhs = np.log(V[j]) - np.log(V[i]) + dE[i, j] / (R_KJ * T)
            if abs(lhs - rhs) > 1e-8 + 1e-10 * abs(rhs):
                msgs.append(f"detailed balance ({i},{j}): log ratio {lhs!r} vs {rhs!r}")
                break
    if msgs:
        return msgs
    # (e) linear in D - on the same model object, then the first setting again (the matrix is a function of the inputs,
    #     not of what was computed before)
    a = float(case["dscale"])
    with quiet():
        Qa = np.asarray(model.get_rate_matrix(D=a * D, T=T).toarray())
        Qagain = np.asarray(model.get_rate_matrix(D=D, T=T).toarray())
    if not np.allclose(Qa, a * Q, rtol=1e-12, atol=TINY * max(1.0, a)):
        msgs.append(f"not linear in D (factor {a}) on a second call of the same model")
    if not np.array_equal(Qagain, Q):
        msgs.append("a repeated call with the same D, T on the same model gives a different matrix")
    # (d) energy shift invariance - a second model built on the very same input matrices
    c = float(case["shift"])
    with quiet():
        Qc = np.asarray(SQRA(energies=E + c, volumes=V_in, distances=H_in, surfaces=S_in).get_rate_matrix(D=D, T=T).toarray())
    if not np.allclose(Qc, Q, rtol=1e-8, atol=TINY):
        i, j = np.unravel_index(np.argmax(np.abs(Qc - Q) / (np.abs(Q) + 1e-300)), Q.shape)
        msgs.append(f"not invariant under E+{c}: [{i},{j}] {Q[i, j]!r} -> {Qc[i, j]!r}")
    # the caller's inputs are still what was passed in
    if not (np.array_equal(np.asarray(S_in.toarray()), S) and np.array_equal(np.asarray(H_in.toarray()), H)
            and np.array_equal(V_in, V) and np.array_equal(E_in, E)
            and V_in.dtype == np.dtype(case.get("vdtype", "float64"))
            and E_in.dtype == np.dtype(case.get("edtype", "float64"))):
        msgs.append("get_rate_matrix modified its input matrices / arrays")
    # (f) storage-form independence
    for other in (["csr", "csr"], ["coo", "coo"], ["coo+coo", "coo+coo"]):
        if other != list(forms):
            Qo = np.asarray(call(S, H, V, E, T, D, other).toarray())
            if not np.array_equal(Qo, Q):
                if not np.allclose(Qo, Q, rtol=1e-13, atol=TINY):
                    msgs.append(f"storage forms {forms} and {other} give different matrices")
                    break
    return msgs


def describe(case):
    S, H, V, E = build_inputs(case)
    n = case["n"]
    pattern = S != 0
    dE = E[:, None] - E[None, :]
    classes = ["forms=" + "/".join(case["forms"])]
    if case.get("vdtype", "float64") != "float64":
        classes.append("integer_volumes")
    elif min(case["V"]) < 1e-8:
        classes.append("tiny_volumes(<1e-8)")
    if case.get("edtype", "float64") != "float64":
        classes.append("integer_energies")
    if (pattern & (np.abs(dE) >= CAP)).any():
        classes.append("has_capped_pair")
    deg = pattern.sum(axis=1)
    if (deg == 0).any():
        classes.append("isolated_row")
    if pattern.any():
        from scipy.sparse.csgraph import connected_components
        ncomp, _ = connected_components(csr_array(pattern.astype(int)), directed=False)
        if ncomp > 1:
            classes.append("disconnected")
    else:
        classes.append("empty_pattern")
    nontrivial = bool(pattern.any()) and len(set(E.tolist())) > 1
    return nontrivial, classes


LARGE_SIZES = [255, 256, 257, 4095, 4096, 4097, 32767, 32768, 46340, 46341, 46342, 65535, 65536, 65537, 100003, 140000]


def judge_large(case):
    """Large sparse models (sizes around powers of two and around sqrt(2^31), where index arithmetic changes regime):
    ring plus chords, entries compared with the formula evaluated on the edge list (int64 / float64 throughout)."""
    from molgri.molecules.transitions import SQRA
    n, T, D = int(case["n"]), float(case["T"]), float(case["D"])
    rng = np.random.default_rng(int(case["rng"]))
    i = np.arange(n, dtype=np.int64)
    a = np.concatenate([i, rng.integers(0, n, size=n // 2)])
    b = np.concatenate([(i + 1) % n, rng.integers(0, n, size=n // 2)])
    keep = a != b
    lo, hi = np.minimum(a[keep], b[keep]), np.maximum(a[keep], b[keep])
    und = np.unique(lo * n + hi)
    lo, hi = und // n, und % n
    m = len(lo)
    s_half, h_half = rng.uniform(0.5, 3.0, size=m), rng.uniform(0.5, 2.0, size=m)
    rows, cols = np.concatenate([lo, hi]), np.concatenate([hi, lo])
    order = np.lexsort((cols, rows))           # row-major entry order, the same for S and h
    rows, cols = rows[order], cols[order]
    sv, hv = np.concatenate([s_half, s_half])[order], np.concatenate([h_half, h_half])[order]
    V = rng.uniform(0.5, 4.0, size=n)
    E = rng.normal(0, float(case["sigma"]), size=n)
    idt = np.dtype(case["index_dtype"])

    def build(vals):
        coo = coo_array((vals.copy(), (rows.astype(idt), cols.astype(idt))), shape=(n, n))
        return coo.tocsr() if case["form"] == "csr" else coo
    try:
        with quiet():
            out = SQRA(energies=E.copy(), volumes=V.copy(), distances=build(hv), surfaces=build(sv)).get_rate_matrix(D=D, T=T)
    except Exception as e:
        return [f"exception {type(e).__name__}: {e}"]
    if out.shape != (n, n):
        return [f"shape {out.shape}"]
    got = out.tocoo()
    gr, gc, gd = got.row.astype(np.int64), got.col.astype(np.int64), np.asarray(got.data, dtype=float)
    offd = gr != gc
    dE = E[rows] - E[cols]
    want = D * sv / (hv * V[rows]) * np.exp(np.where(dE < CAP, dE, CAP) / (2 * R_KJ * T))
    key_w, key_g = rows * n + cols, gr[offd] * n + gc[offd]
    og = np.argsort(key_g, kind="stable")
    key_g, val_g = key_g[og], gd[offd][og]
    nz = val_g != 0
    key_g, val_g = key_g[nz], val_g[nz]
    msgs = []
    if len(key_g) != len(key_w) or not np.array_equal(key_g, key_w):
        return [f"n={n}: off-diagonal pattern of the result differs from the pattern of S ({len(key_g)} vs {len(key_w)} entries)"]
    bad = ~np.isclose(val_g, want, rtol=1e-10, atol=TINY)
    if bad.any():
        k = int(np.argmax(bad))
        msgs.append(f"n={n} ({case['form']}, {case['index_dtype']} indices): {int(bad.sum())} entries deviate, e.g. "
                    f"Q[{rows[k]},{cols[k]}]={val_g[k]!r} but the formula gives {want[k]!r}")
    rs = np.asarray(out.sum(axis=1)).ravel()
    scale = np.asarray(abs(out).sum(axis=1)).ravel()
    if np.any(np.abs(rs) > 1e-10 * scale + 1e-300):
        msgs.append(f"n={n}: row {int(np.argmax(np.abs(rs) - 1e-10 * scale))} does not sum to zero")
    return msgs


def _large_shard(arg):
    shard, n_examples = arg
    from hypothesis import given, strategies as st

    def builder(res, fail):
        @given(st.fixed_dictionaries({
            "large": st.just(True), "n": st.sampled_from(LARGE_SIZES), "rng": st.integers(0, 2 ** 31),
            "T": st.sampled_from([150.0, 300.0, 1000.0]), "D": st.sampled_from([1.0, 0.013, 250.0]),
            "sigma": st.sampled_from([0.0, 2.0, 40.0]), "form": st.sampled_from(["csr", "coo"]),
            "index_dtype": st.sampled_from(["int32", "int32", "int64"])}))
        def test(case):
            msgs = judge_large(case)
            res.case(sample=case, nontrivial=case["sigma"] > 0, key=case,
                     classes=["large_sparse_model", f"index={case['index_dtype']}"]
                     + (["n*n>=2^31"] if case["n"] ** 2 >= 2 ** 31 else []))
            if msgs:
                fail(case, "; ".join(msgs))
        return test
    res = Result()
    run_hypothesis(builder, res, 500 + shard, n_examples, shrink=False)
    return res


def _hyp_shard(arg):
    shard, n_examples = arg
    from hypothesis import given, strategies as st

    def logu(lo, hi):
        return st.floats(np.log(lo), np.log(hi)).map(lambda x: float(np.exp(x)))

    @st.composite
    def cases(draw):
        n = draw(st.integers(2, 14))
        allpairs = [(i, j) for i in range(n) for j in range(i + 1, n)]
        shape = draw(st.sampled_from(["random", "random", "random", "path", "star", "two_components", "empty"]))
        if shape == "random":
            dens = draw(st.sampled_from([0.1, 0.3, 0.6, 1.0]))
            mask = draw(st.lists(st.floats(0, 1), min_size=len(allpairs), max_size=len(allpairs)))
            pairs = [p for p, m in zip(allpairs, mask) if m < dens]
        elif shape == "path":
            perm = draw(st.permutations(range(n)))
            pairs = [tuple(sorted((perm[k], perm[k + 1]))) for k in range(n - 1)]
        elif shape == "star":
            c = draw(st.integers(0, n - 1))
            pairs = [tuple(sorted((c, k))) for k in range(n) if k != c]
        elif shape == "two_components":
            cut = draw(st.integers(1, n - 1))
            pairs = [p for p in allpairs if (p[0] < cut) == (p[1] < cut)]
        else:
            pairs = []
        pairs = sorted(set(pairs))
        m = len(pairs)
        S = draw(st.lists(logu(1e-3, 1e3), min_size=m, max_size=m))
        h = draw(st.lists(logu(1e-3, 1e3), min_size=m, max_size=m))
        V = draw(st.lists(logu(1e-3, 1e3), min_size=n, max_size=n))
        vscale = draw(st.sampled_from([1.0, 1.0, 1.0, 1e-7, 1e-10, 1e-13, 1e5]))     # cells of any (positive) size
        V = [v * vscale for v in V]
        emode = draw(st.sampled_from(["equal", "small", "large", "cap", "cap", "ramp"]))
        if emode == "equal":
            e0 = draw(st.floats(-1e3, 1e3))
            E = [e0] * n
        elif emode == "small":
            E = draw(st.lists(st.floats(-3, 3), min_size=n, max_size=n))
        elif emode == "large":
            E = draw(st.lists(st.floats(-150, 150), min_size=n, max_size=n))
        elif emode == "ramp":
            # a staircase: consecutive cells differ by less than the cap, the whole range is thousands of kJ/mol
            step = draw(st.sampled_from([120.0, 300.0, 450.0, -400.0]))
            base = draw(st.floats(-1e4, 1e4))
            order = list(draw(st.permutations(range(n)))) if shape != "path" else list(perm)
            E = [0.0] * n
            for k, cell in enumerate(order):
                E[cell] = base + k * step
        else:
            E = draw(st.lists(st.floats(-150, 150), min_size=n, max_size=n))
            if pairs:
                i, j = pairs[draw(st.integers(0, m - 1))]
                gap = draw(st.sampled_from([500.0, 500.0000001, 499.9999999, 501.0, 2000.0, 1e5]))
                if draw(st.booleans()):
                    i, j = j, i
                E[i] = E[j] + gap
        # callers also hold cell volumes / energies as integer-valued arrays of an integer dtype
        vdtype = draw(st.sampled_from(["float64"] * 5 + ["int64", "int32"]))
        edtype = draw(st.sampled_from(["float64"] * 6 + ["int64"]))
        if vdtype != "float64":
            V = [float(v) for v in draw(st.lists(st.integers(1, 60), min_size=n, max_size=n))]
        if edtype != "float64":
            E = [float(np.round(e)) for e in E]
        T = draw(logu(1.0, 2000.0))
        # keep the (capped) exponent inside the float64 range: the property does not claim finite results beyond it
        Earr = np.array(E)
        maxd = 0.0
        for (i, j) in pairs:
            maxd = max(maxd, min(abs(Earr[i] - Earr[j]), CAP))
        T = max(T, maxd / (2 * R_KJ * 600.0))
        D = draw(logu(1e-6, 1e3))
        forms = draw(st.sampled_from([["csr", "csr"], ["coo+coo", "coo+coo"], ["coo", "coo"], ["csr", "coo"],
                                      ["coo", "coo+coo"]]))
        return {"n": n, "pairs": [list(p) for p in pairs], "S": S, "h": h, "V": V, "E": [float(x) for x in E], "T": T,
                "D": D, "forms": forms, "vdtype": vdtype, "edtype": edtype, "shift": draw(st.floats(-1e4, 1e4)), "dscale": draw(logu(1e-3, 1e3))}

    def builder(res, fail):
        @given(cases())
        def test(case):
            nontrivial, classes = describe(case)
            msgs = judge(case)
            res.case(sample=case, nontrivial=nontrivial, key=case, classes=classes)
            if msgs:
                fail(case, "; ".join(msgs))
        return test

    res = Result()
    run_hypothesis(builder, res, shard, n_examples)
    return res


def replay(case):
    if case.get("large"):
        return judge_large(case)
    return judge(case)


def run(tier):
    total, shards = (8000, 16) if tier == "quick" else (160000, 16)
    results = pmap(_hyp_shard, [(s, total // shards) for s in range(shards)])
    results += pmap(_large_shard, [(s, 4 if tier == "quick" else 40) for s in range(shards)])
    res = merge_results(results)
    rule = ("Hypothesis: n in 2..14, symmetric patterns (random density / path / star / two components / empty), S,h,V "
            "log-uniform in [1e-3,1e3] (V also scaled by 1e-13..1e5), energies equal / sigma-small / large / with a forced adjacent pair at or beyond the "
            "500 kJ/mol cap, T in [1,2000] K raised only as far as needed to keep the capped exponent < 600, D in [1e-6,1e3], "
            "storage csr / coo+coo / row-major coo / mixed, V and E as float64 or as integer-valued arrays of an integer "
            "dtype; plus large sparse models (ring + chords, n around powers of two up to 140000 and around sqrt(2^31), csr / coo, "
            f"int32 / int64 indices; sizes {LARGE_SIZES}) compared entry by entry with the formula. Non-trivial = at least one edge and not all energies equal; "
            "distinct = distinct full input.")
    return res, rule, {"assumptions": ["S and h share one pattern with empty diagonal and no explicitly stored zeros",
                                       "T large enough that exp(min(dE,500)/(2RT)) is finite in float64"]}
