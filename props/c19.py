"""
C19  Every valid grid specification yields all geometry or a deliberate ValueError.

Exhaustive enumeration of the small box (n_b, n_o, n_t) x position modes x getters (x algorithm combinations);
oracle: result of the correct shape, or ValueError (Cartesian mode with n_o < 3: also the geometry library's own
QhullError). Anything else is a violation, bucketed by (exception type, innermost repository frame).
"""
import itertools

import numpy as np

from vlib.core import Result, pmap, merge_results, quiet
from vlib.grids import innermost_repo_frame

GETTERS = ["get_full_grid_as_array", "get_total_volumes", "get_full_adjacency", "get_full_borders", "get_full_distances"]
SELECTOR_VARIANTS = ["get_full_adjacency(only_orientation)", "get_full_adjacency(only_position)",
                     "get_full_distances(only_orientation)", "get_full_distances(only_position)"]
T_GRIDS = {1: ["[0.3]", "0.25"], 2: ["[0.2, 0.35]", "linspace(0.1, 0.4, 2)"], 3: ["[0.1, 0.2, 0.4]", "range(1, 4)"],
           4: ["[0.1, 0.2, 0.4, 0.5]", "linspace(0.2, 0.8, 4)"]}


def judge(case):
    from scipy.spatial import QhullError
    from molgri.space.fullgrid import FullGrid
    b, o, t, cart = case["b"], case["o"], case["t"], case["cartesian"]
    n = case["n_b"] * case["n_o"] * case["n_t"]
    msgs = []
    outcomes = {}

    def allowed(e):
        if isinstance(e, ValueError):
            return True
        return cart and case["n_o"] < 3 and isinstance(e, QhullError)
    try:
        with quiet():
            # the mode flag as a caller may hold it: Python bool, numpy bool (element of a flag array) or integer 0/1
            flag = {"bool": bool, "np": np.bool_, "int": int}[case.get("flag_form", "bool")](cart)
            fg = FullGrid(b, o, t, factor=case.get("factor", 2), position_grid_cartesian=flag)
    except Exception as e:
        outcomes["construct"] = type(e).__name__
        if not allowed(e):
            msgs.append(f"construct: {type(e).__name__} at {innermost_repo_frame(e)}: {e}")
        return msgs, outcomes
    for g in GETTERS + SELECTOR_VARIANTS:
        kwargs = {}
        if "(" in g:      # "get_full_adjacency(only_orientation)": the getter with one of its optional selectors switched on
            g_name, sel = g[:-1].split("(")
            kwargs = {sel: True}
        else:
            g_name = g
        try:
            with quiet():
                val = getattr(fg, g_name)(**kwargs)
        except Exception as e:
            outcomes[g] = type(e).__name__
            if not allowed(e):
                msgs.append(f"{g}: {type(e).__name__} at {innermost_repo_frame(e)}: {str(e)[:200]}")
            continue
        outcomes[g] = "ok"
        if g == "get_full_grid_as_array":
            shape = np.asarray(val).shape
            want = (n, 7)
        elif g == "get_total_volumes":
            shape = np.asarray(val).shape
            want = (n,)
        else:
            shape = tuple(val.shape)
            want = (n, n)
        if shape != want:
            msgs.append(f"{g}: shape {shape}, expected {want}")
    return msgs, outcomes


def bucket(msg):
    return msg.split(": ", 2)[1] if msg.count(": ") >= 2 else msg


def _one(case):
    res = Result()
    msgs, outcomes = judge(case)
    classes = ["cartesian" if case["cartesian"] else "spherical", f"mode_flag_as_{case.get('flag_form', 'bool')}"]
    classes += [f"{k}={v}" for k, v in outcomes.items() if v != "ok"]
    if all(v == "ok" for v in outcomes.values()):
        classes.append("all_getters_ok")
    tiny = min(case["n_b"], case["n_o"]) <= 3 or case["n_t"] == 1
    res.case(sample=dict(case, outcomes=outcomes), nontrivial=tiny, key=case, classes=classes)
    seen = set()
    for m in msgs:
        bk = bucket(m)
        if bk not in seen:  # one violation per root-cause bucket and case
            seen.add(bk)
            res.violation(case, m)
    return res


def replay(case):
    case = {k: v for k, v in case.items() if k != "outcomes"}
    return judge(case)[0]


def run(tier):
    if tier == "quick":
        nb_range, no_range, nt_range = range(1, 6), range(1, 6), range(1, 4)
        combos = [("cube4D", "ico"), ("randomQ", "randomS"), ("cube4D", "cube3D")]
    else:
        nb_range, no_range, nt_range = range(1, 10), range(1, 10), range(1, 5)
        combos = list(itertools.product(("cube4D", "randomQ"), ("ico", "cube3D", "randomS")))
    cases = []
    for (ba, oa), n_b, n_o, n_t, cart in itertools.product(combos, nb_range, no_range, nt_range, (False, True)):
        for ti, t in enumerate(T_GRIDS[n_t]):
            if ti == 1 and (ba, oa) != combos[0]:
                continue
            cases.append({"b": f"{ba}_{n_b}", "o": f"{oa}_{n_o}", "t": t, "cartesian": cart,
                          "n_b": n_b, "n_o": n_o, "n_t": n_t, "flag_form": ("bool", "np", "int", "bool")[len(cases) % 4]})
    # bare numbers select the default algorithms
    for n_b, n_o in itertools.product(nb_range, no_range):
        cases.append({"b": str(n_b), "o": str(n_o), "t": "[0.1, 0.3]", "cartesian": False, "n_b": n_b, "n_o": n_o, "n_t": 2})
    res = merge_results(pmap(_one, cases))
    # keep one violation per root-cause bucket (smallest specification first)
    res.violations.sort(key=lambda v: (v["case"]["n_b"] * v["case"]["n_o"] * v["case"]["n_t"], str(v["case"])))
    seen, keep = set(), []
    for v in res.violations:
        bk = bucket(v["message"])
        if bk not in seen:
            seen.add(bk)
            keep.append(v)
    res.violations = keep
    rule = (f"exhaustive box: n_b in {list(nb_range)}, n_o in {list(no_range)}, n_t in {list(nt_range)} (two radial syntaxes "
            f"each), both position modes (flag passed as Python bool, numpy bool or integer), algorithm pairs {combos} plus bare-number names, all five getters per grid, adjacency and distances also with each optional selector (only_orientation / only_position). "
            f"Non-trivial = a tiny case (n_b<=3 or n_o<=3 or a single radius); distinct = distinct specification.")
    return res, rule, {"exhaustive": True, "assumptions": [
        "Cartesian mode with n_o < 3: the geometry library's QhullError is an allowed rejection (stated in the property)"]}
